// leakprobe: how much heap and how many goroutines does a closed broker leave behind? (development aid)
package main

import (
	"fmt"
	"os"
	"runtime"
	"runtime/pprof"
	"time"

	"github.com/emitter-io/emitter/verif/bk"
)

func main() {
	storage := "inmemory"
	if len(os.Args) > 1 {
		storage = os.Args[1]
	}
	var m runtime.MemStats
	for i := 0; i < 60; i++ {
		b, err := bk.New(bk.Opts{Storage: storage})
		if err != nil {
			panic(err)
		}
		c := b.Attach()
		c.Barrier(2 * time.Second)
		b.Close()
		if i%20 == 19 {
			runtime.GC()
			runtime.ReadMemStats(&m)
			fmt.Printf("%d brokers: heap in use %d MB, goroutines %d\n", i+1, m.HeapInuse>>20, runtime.NumGoroutine())
		}
	}
	f, _ := os.Create("/tmp/leak.heap")
	pprof.WriteHeapProfile(f)
	f.Close()
	g, _ := os.Create("/tmp/leak.gor")
	pprof.Lookup("goroutine").WriteTo(g, 1)
	g.Close()
}
