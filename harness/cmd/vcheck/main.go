// vcheck runs one property check:  vcheck <Cnn> [quick|thorough] [--replay file]
package main

import (
	"fmt"
	"os"
	"strings"
	"time"

	"github.com/emitter-io/emitter/verif/core"
	"github.com/emitter-io/emitter/verif/drivers/adapters"
	"github.com/emitter-io/emitter/verif/drivers/authz"
	"github.com/emitter-io/emitter/verif/drivers/ban"
	"github.com/emitter-io/emitter/verif/drivers/codec"
	vcrdt "github.com/emitter-io/emitter/verif/drivers/crdt"
	"github.com/emitter-io/emitter/verif/drivers/durable"
	"github.com/emitter-io/emitter/verif/drivers/gossip"
	"github.com/emitter-io/emitter/verif/drivers/history"
	"github.com/emitter-io/emitter/verif/drivers/mqttc"
	"github.com/emitter-io/emitter/verif/drivers/peerq"
	"github.com/emitter-io/emitter/verif/drivers/session"
	"github.com/emitter-io/emitter/verif/drivers/trie"
	"github.com/emitter-io/emitter/verif/drivers/wq"
)

var checks = map[string]func(*core.Ctx){
	"C01": trie.Run,
	"C02": session.RunC02,
	"C03": authz.RunC03,
	"C04": vcrdt.Run,
	"C05": gossip.Run,
	"C06": history.Run,
	"C07": session.RunC07,
	"C08": session.RunC08,
	"C09": session.RunC09,
	"C10": wq.RunC10,
	"C11": authz.RunC11,
	"C12": authz.RunC12,
	"C13": gossip.RunC13,
	"C14": ban.Run,
	"C15": durable.Run,
	"C16": mqttc.Run,
	"C17": adapters.Run,
	"C18": session.RunC18,
	"C19": peerq.Run,
	"C20": codec.Run,
	// development aid (not registered): the session-level cluster stage of C05 alone
	"XHAMMER": func(c *core.Ctx) {
		c.Level = "model_checking"
		session.HammerStage(c, "state after concurrent requests differs from the specification", 6, 150, 1)
		c.Finish()
	},
	"XSURVEY": func(c *core.Ctx) {
		c.Level = "model_checking"
		session.ClusterStage(c, "cluster with answered surveys differs from the one-broker specification at quiescence", 2, true, []string{"presence"}, 20, 14)
		c.Finish()
	},
	"XRETAIN": func(c *core.Ctx) {
		c.Level = "model_checking"
		session.SequentialStage(c, "retain family", "retain", 60, 18)
		c.Finish()
	},
	"XSURVEY2": func(c *core.Ctx) {
		c.Level = "model_checking"
		session.ClusterStage(c, "history across brokers (answered surveys) differs from the specification", 2, true, []string{"retain"}, 20, 14)
		c.Finish()
	},
	"XCLUSTER": func(c *core.Ctx) {
		c.Level = "model_checking"
		session.ClusterStage(c, "cluster differs from the one-broker specification at quiescence", 2, false, []string{"pubsub", "presence", "ending"}, 30, 14)
		c.Finish()
	},
}

func main() {
	if len(os.Args) < 2 {
		fmt.Fprintln(os.Stderr, "usage: vcheck <Cnn> [quick|thorough] [--replay file]")
		os.Exit(core.ExitMachinery)
	}
	if os.Args[1] == "_triechild" {
		trie.ConcurrentChild(os.Args[2:])
		return
	}
	if os.Args[1] == "_replaychild" {
		session.ReplayChild(os.Args[2:])
		return
	}
	if os.Args[1] == "_storechild" {
		durable.Child(os.Args[2:])
		return
	}
	id := strings.ToUpper(os.Args[1])
	tier := os.Getenv("VERIF_TIER")
	replay := ""
	for i := 2; i < len(os.Args); i++ {
		switch a := os.Args[i]; {
		case a == "quick" || a == "thorough":
			tier = a
		case a == "--tier" && i+1 < len(os.Args):
			i++
			tier = os.Args[i]
		case a == "--replay" && i+1 < len(os.Args):
			i++
			replay = os.Args[i]
		}
	}
	if tier == "" {
		tier = "quick"
	}
	if r := os.Getenv("VERIF_ROOT"); r != "" {
		core.Root = r
	}
	f, ok := checks[id]
	if !ok {
		core.Fatalf("no check for %s", id)
	}
	// watchdog: a check that does not finish is machinery trouble (exit 2), never a verdict and never a hang
	limit := 40 * time.Minute
	if tier == "thorough" {
		limit = 4 * time.Hour
	}
	time.AfterFunc(limit, func() {
		fmt.Fprintf(os.Stderr, "[vcheck] MACHINERY: %s %s did not finish within %v (watchdog)\n", id, tier, limit)
		os.Exit(core.ExitMachinery)
	})
	c := core.NewCtx(id, tier)
	c.ReplayIn = replay
	f(c)
	c.Finish()
}
