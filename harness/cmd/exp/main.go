// exp: scratch experiments against the real packages (development aid; not part of any check)
package main

import (
	"encoding/json"
	"fmt"
	"math/rand"

	"github.com/emitter-io/emitter/verif/drivers/session"
)

func main() {
	mk := func(s string) json.RawMessage { return json.RawMessage(s) }
	walk := []json.RawMessage{
		mk(`{"n":"connect","c":"c1","u":"u-c1","will":{"on":false}}`),
		mk(`{"n":"connect","c":"c2","u":"u-c2","will":{"on":true,"k":"kAll","w":["a"],"syn":"ok","retain":false,"p":"will-of-c2"}}`),
		mk(`{"n":"sub","c":"c1","k":"kAll","w":["a"],"syn":"ok","last":0,"win":"none"}`),
		mk(`{"n":"sub","c":"c2","k":"kAll","w":["a","b"],"syn":"ok","last":0,"win":"none"}`),
		mk(`{"n":"pub","c":"c2","k":"kAll","w":["a"],"syn":"ok","me0":false,"ttl":3600,"via":"","retain":false,"qos":1,"p":"before"}`),
		mk(`{"n":"hostile","c":"c2","cls":"sub-last-huge"}`),
	}
	t, err := session.Replay("emitter", 2, "inmemory", walk, "x", rand.New(rand.NewSource(1)))
	fmt.Println(err)
	for _, e := range t.Events {
		s := string(e)
		if len(s) > 300 {
			s = s[:300]
		}
		fmt.Println(s)
	}
}
