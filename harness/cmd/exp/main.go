// exp: scratch experiments against the real packages (development aid; not part of any check)
package main

import (
	"fmt"
	"time"

	"github.com/emitter-io/emitter/internal/network/mqtt"
	"github.com/emitter-io/emitter/verif/bk"
)

func main() {
	b, err := bk.New(bk.Opts{NoCluster: true})
	if err != nil {
		panic(err)
	}
	key, _ := b.Key("#/", "rwslp", time.Unix(0, 0))
	c1 := b.Attach()
	c1.Send(&mqtt.Connect{ClientID: []byte("c1")})
	c1.Barrier(2 * time.Second)
	c1.Send(&mqtt.Subscribe{MessageID: 1, Subscriptions: []mqtt.TopicQOSTuple{{Topic: []byte(key + "/a/")}}})
	c1.Barrier(2 * time.Second)
	c0 := b.Attach()
	c0.Send(&mqtt.Connect{ClientID: []byte("c0")})
	c0.Barrier(2 * time.Second)
	c0.Send(&mqtt.Publish{Header: mqtt.Header{QOS: 1, Retain: true}, MessageID: 3, Topic: []byte(key + "/a/"), Payload: []byte("retained")})
	ps0, err0 := c0.Barrier(5 * time.Second)
	fmt.Println("retained publish: err =", err0, len(ps0))
	c0.Send(&mqtt.Subscribe{MessageID: 4, Subscriptions: []mqtt.TopicQOSTuple{{Topic: []byte(key + "/a/?last=5")}}})
	ps0, err0 = c0.Barrier(5 * time.Second)
	fmt.Println("subscribe with last=5 on a broker without cluster config: err =", err0)
	for _, p := range ps0 {
		fmt.Printf("  c0 <- %+v\n", bk.Abstract(p))
	}
	c1.Send(&mqtt.Publish{Header: mqtt.Header{QOS: 1}, MessageID: 8, Topic: []byte("emitter/presence/"), Payload: []byte(fmt.Sprintf(`{"key":%q,"channel":"a/","status":true}`, key))})
	ps, err := c1.Barrier(5 * time.Second)
	fmt.Println("presence status on a broker without cluster config: err =", err)
	for _, p := range ps {
		fmt.Printf("  c1 <- %+v\n", bk.Abstract(p))
	}
	fmt.Println("trie count after:", b.Svc.VerifTrie().Count())
}
