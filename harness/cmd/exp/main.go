// exp: scratch experiments against the real packages (development aid; not part of any check)
package main

import (
	"fmt"
	"os"
	"strconv"
	"strings"
	"time"

	"github.com/emitter-io/emitter/internal/network/mqtt"
	"github.com/emitter-io/emitter/verif/bk"
)

func main() {
	n, _ := strconv.Atoi(os.Args[1])
	b, err := bk.New(bk.Opts{Mode: os.Args[2]})
	if err != nil {
		panic(err)
	}
	key, _ := b.Key("#/", "rwslp", time.Unix(0, 0))
	c1, c2 := b.Attach(), b.Attach()
	c1.Send(&mqtt.Connect{ClientID: []byte("c1")})
	c2.Send(&mqtt.Connect{ClientID: []byte("c2")})
	c1.Barrier(2 * time.Second)
	c2.Barrier(2 * time.Second)
	topic := key + "/" + strings.Repeat("+/", n)
	t0 := time.Now()
	c1.Send(&mqtt.Subscribe{MessageID: 1, Subscriptions: []mqtt.TopicQOSTuple{{Topic: []byte(topic)}}})
	_, err = c1.Barrier(20 * time.Second)
	fmt.Println("subscribe", n, "plus levels:", time.Since(t0), err)
	t0 = time.Now()
	c1.Send(&mqtt.Unsubscribe{MessageID: 2, Topics: []mqtt.TopicQOSTuple{{Topic: []byte(topic)}}})
	go func() {
		time.Sleep(100 * time.Millisecond)
		t1 := time.Now()
		c2.Send(&mqtt.Subscribe{MessageID: 1, Subscriptions: []mqtt.TopicQOSTuple{{Topic: []byte(key + "/a/")}}})
		_, err := c2.Barrier(60 * time.Second)
		fmt.Println("  other client's subscribe meanwhile:", time.Since(t1), err)
	}()
	_, err = c1.Barrier(60 * time.Second)
	fmt.Println("unsubscribe:", time.Since(t0), err)
	time.Sleep(200 * time.Millisecond)
}
