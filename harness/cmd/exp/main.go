// exp: scratch experiments against the real packages (development aid; not part of any check)
package main

import (
	"encoding/hex"
	"fmt"
	"runtime/debug"

	"github.com/emitter-io/emitter/verif/bk"
)

func main() {
	b, err := bk.New(bk.Opts{LicenseVer: 1})
	if err != nil {
		panic(err)
	}
	payload, _ := hex.DecodeString("7b10030001180009010007090748000900000001000000021418d8414acd81d7430d1948000002612f01010a62616e6e65642d6b657910092204d8d4090810da5b0001100d2d00070d08040918091c04df490d1120000000000000000175")
	defer func() {
		if r := recover(); r != nil {
			fmt.Println("PANIC:", r)
			fmt.Println(string(debug.Stack()))
		}
	}()
	_, err = b.Svc.VerifCluster().OnGossip(payload)
	fmt.Println("err:", err)
}
