package main

import (
	"fmt"
	"time"

	"github.com/emitter-io/emitter/internal/network/mqtt"
	"github.com/emitter-io/emitter/verif/bk"
)

func main() {
	for _, mode := range []string{"emitter"} {
		t0 := time.Now()
		b, err := bk.New(bk.Opts{Mode: mode})
		if err != nil {
			panic(err)
		}
		fmt.Println("broker up in", time.Since(t0))
		key, err := b.Key("#/", "rwslp", time.Unix(0, 0))
		fmt.Println("key", key, err)
		c1, c2 := b.Attach(), b.Attach()
		c1.Send(&mqtt.Connect{ClientID: []byte("c1"), Username: []byte("u1")})
		c2.Send(&mqtt.Connect{ClientID: []byte("c2"), Username: []byte("u2")})
		t0 = time.Now()
		c1.Send(&mqtt.Subscribe{MessageID: 1, Subscriptions: []mqtt.TopicQOSTuple{{Topic: []byte(key + "/a/b/")}}})
		ps, err := c1.Barrier(2 * time.Second)
		fmt.Println("sub took", time.Since(t0), err)
		for _, p := range ps {
			fmt.Printf("  c1 <- %+v\n", bk.Abstract(p))
		}
		c1.Send(&mqtt.Subscribe{MessageID: 1, Subscriptions: []mqtt.TopicQOSTuple{{Topic: []byte(key + "/b/a/")}}})
		c1.Barrier(2 * time.Second)
		t0 = time.Now()
		c2.Send(&mqtt.Publish{Header: mqtt.Header{QOS: 1, Retain: true}, MessageID: 7, Topic: []byte(key + "/b/a/"), Payload: []byte("m1")})
		ps, err = c2.Barrier(2 * time.Second)
		fmt.Println("pub took", time.Since(t0), err)
		for _, p := range ps {
			fmt.Printf("  c2 <- %+v\n", bk.Abstract(p))
		}
		ps, _ = c1.Barrier(2 * time.Second)
		for _, p := range ps {
			fmt.Printf("  c1 <- %+v\n", bk.Abstract(p))
		}
		t0 = time.Now()
		c2.Send(&mqtt.Publish{Header: mqtt.Header{QOS: 1}, MessageID: 8, Topic: []byte("emitter/presence/"), Payload: []byte(fmt.Sprintf(`{"key":%q,"channel":"a/b/","status":true,"changes":true}`, key))})
		ps, err = c2.Barrier(5 * time.Second)
		fmt.Println("presence took", time.Since(t0), err)
		for _, p := range ps {
			fmt.Printf("  c2 <- %+v\n", bk.Abstract(p))
		}
		t0 = time.Now()
		c2.Send(&mqtt.Subscribe{MessageID: 1, Subscriptions: []mqtt.TopicQOSTuple{{Topic: []byte(key + "/b/a/?last=2")}}})
		ps, err = c2.Barrier(5 * time.Second)
		fmt.Println("sub with history took", time.Since(t0), err)
		for _, p := range ps {
			fmt.Printf("  c2 <- %+v\n", bk.Abstract(p))
		}
		t0 = time.Now()
		fmt.Println("drop c1:", c1.Drop(), time.Since(t0), "trie count", b.Svc.VerifTrie().Count())
		b.Svc.VerifPresenceBarrier()
		ps, _ = c2.Barrier(2 * time.Second)
		for _, p := range ps {
			fmt.Printf("  c2 <- %+v\n", bk.Abstract(p))
		}
		t0 = time.Now()
		b.Close()
		fmt.Println("closed in", time.Since(t0))
	}
}
