// Package memconn provides an in-memory, buffered, full-duplex net.Conn pair. Writes never block (unbounded
// buffer) unless the reading end is stalled on purpose, so a single-threaded driver can talk to a broker whose goroutines write to several clients at once.
package memconn

import (
	"io"
	"net"
	"os"
	"sync"
	"time"
)

type half struct {
	mu     sync.Mutex
	cond   *sync.Cond
	buf     []byte
	closed  bool // no more data will be written (writer closed) or reader closed
	stalled bool // the reader's window is full: writers block until it opens again (or the half is closed)
}

func newHalf() *half {
	h := &half{}
	h.cond = sync.NewCond(&h.mu)
	return h
}

// Conn is one end of the pair.
type Conn struct {
	rd, wr   *half
	name     string
	closeOne sync.Once
	closedCh chan struct{}
	dlMu     sync.Mutex
	deadline time.Time
}

type addr string

func (a addr) Network() string { return "mem" }
func (a addr) String() string  { return string(a) }

// Pair returns the client end and the server end.
func Pair() (client, server *Conn) {
	a, b := newHalf(), newHalf()
	client = &Conn{rd: a, wr: b, name: "client", closedCh: make(chan struct{})}
	server = &Conn{rd: b, wr: a, name: "server", closedCh: make(chan struct{})}
	return
}

// Read blocks until data, EOF (peer closed) or the read deadline.
func (c *Conn) Read(p []byte) (int, error) {
	c.rd.mu.Lock()
	defer c.rd.mu.Unlock()
	for len(c.rd.buf) == 0 {
		if c.rd.closed {
			return 0, io.EOF
		}
		c.dlMu.Lock()
		dl := c.deadline
		c.dlMu.Unlock()
		if !dl.IsZero() {
			d := time.Until(dl)
			if d <= 0 {
				return 0, os.ErrDeadlineExceeded
			}
			t := time.AfterFunc(d, func() { c.rd.mu.Lock(); c.rd.cond.Broadcast(); c.rd.mu.Unlock() })
			c.rd.cond.Wait()
			t.Stop()
			continue
		}
		c.rd.cond.Wait()
	}
	n := copy(p, c.rd.buf)
	c.rd.buf = c.rd.buf[n:]
	return n, nil
}

// Write appends to the peer's read buffer.
func (c *Conn) Write(p []byte) (int, error) {
	c.wr.mu.Lock()
	defer c.wr.mu.Unlock()
	for c.wr.stalled && !c.wr.closed {
		c.wr.cond.Wait()
	}
	if c.wr.closed {
		return 0, io.ErrClosedPipe
	}
	c.wr.buf = append(c.wr.buf, p...)
	c.wr.cond.Broadcast()
	return len(p), nil
}

// Close closes both directions: the peer reads EOF after draining, our reads return EOF.
func (c *Conn) Close() error {
	c.closeOne.Do(func() {
		c.wr.mu.Lock()
		c.wr.closed = true
		c.wr.cond.Broadcast()
		c.wr.mu.Unlock()
		c.rd.mu.Lock()
		c.rd.closed = true
		c.rd.cond.Broadcast()
		c.rd.mu.Unlock()
		close(c.closedCh)
	})
	return nil
}

// Stall makes writes TO this end block (as a peer that stopped reading does once the socket buffers are full) until
// Stall(false).
func (c *Conn) Stall(on bool) {
	c.rd.mu.Lock()
	c.rd.stalled = on
	c.rd.cond.Broadcast()
	c.rd.mu.Unlock()
}

// Closed is closed when Close has been called on this end.
func (c *Conn) Closed() <-chan struct{} { return c.closedCh }

// Buffered returns the number of bytes waiting to be read on this end.
func (c *Conn) Buffered() int {
	c.rd.mu.Lock()
	defer c.rd.mu.Unlock()
	return len(c.rd.buf)
}

func (c *Conn) LocalAddr() net.Addr  { return addr("mem-" + c.name) }
func (c *Conn) RemoteAddr() net.Addr { return addr("mem-peer-of-" + c.name) }

// SetDeadline sets the read deadline (writes never block).
func (c *Conn) SetDeadline(t time.Time) error { return c.SetReadDeadline(t) }

// SetReadDeadline sets the read deadline.
func (c *Conn) SetReadDeadline(t time.Time) error {
	c.dlMu.Lock()
	c.deadline = t
	c.dlMu.Unlock()
	c.rd.mu.Lock()
	c.rd.cond.Broadcast()
	c.rd.mu.Unlock()
	return nil
}

// SetWriteDeadline is a no-op.
func (c *Conn) SetWriteDeadline(t time.Time) error { return nil }
