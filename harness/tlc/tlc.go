// Package tlc runs the TLC model checker in a private scratch directory and parses what the
// verification harness needs from its output: state counts, tagged PrintT lines (EDGE / BEH / HWM ...),
// invariant violations, and the coverage table.
package tlc

import (
	"bufio"
	"context"
	"fmt"
	"io"
	"os"
	"os/exec"
	"path/filepath"
	"regexp"
	"strconv"
	"strings"
	"time"
)

// Jar is the class path of the pre-installed TLA+ tools.
const Jar = "/opt/veriftools/tla/tla2tools.jar:/opt/veriftools/tla/CommunityModules-deps.jar"

// Opts describes one TLC invocation.
type Opts struct {
	SpecDir  string            // directory with the .tla / .cfg files (copied into the scratch dir)
	Module   string            // root module (file name without .tla)
	Cfg      string            // name of the cfg file in SpecDir, or literal cfg text when it contains a newline
	Workers  int               // 0 = auto
	SimNum   int               // >0: -simulate num=SimNum
	SimDepth int               // -depth
	Seed     int64             // -seed
	Timeout  time.Duration     // default 10 min
	Files    map[string][]byte // extra files written into the scratch dir (e.g. trace.ndjson)
	Deadlock bool              // true = let TLC check deadlock
	Coverage bool              // -coverage 1
	DFS      bool              // depth-first state queue (trace validation with branching)
	HeapGB   int               // -Xmx; default 8
	OnTag    func(tag, json string)
	KeepOut  bool // keep complete output in Result.Out (otherwise only the non-tag lines, capped)
}

// Result is what one TLC run produced.
type Result struct {
	Generated int64
	Distinct  int64
	Depth     int
	Violated  string // name of the violated invariant / property ("" if none)
	Deadlock  bool
	ErrText   string // first "Error:" text other than invariant violations
	Out       string
	Wall      time.Duration
	ExitCode  int
	TimedOut  bool
	Coverage  map[string]int64 // action name -> count (only with Coverage)
	Tags      map[string]int   // number of tagged lines seen per tag
	Cmd       string
}

var (
	reStates   = regexp.MustCompile(`^(\d+) states generated, (\d+) distinct states found`)
	reStatesS  = regexp.MustCompile(`^The number of states generated: (\d+)`)
	reDepth    = regexp.MustCompile(`^The depth of the complete state graph search is (\d+)`)
	reInv      = regexp.MustCompile(`^Error: Invariant (\S+) is violated`)
	reProp     = regexp.MustCompile(`^Error: (Action property|Temporal properties|Property) (\S+)?`)
	reTag      = regexp.MustCompile(`^<<"([A-Z0-9_]+)", "(.*)">>$`)
	reCoverage = regexp.MustCompile(`^<(\w+) line \d+, col \d+ to line \d+, col \d+ of module (\w+)>: (\d+):(\d+)`)
)

func unescape(s string) string {
	if !strings.Contains(s, `\`) {
		return s
	}
	var b strings.Builder
	for i := 0; i < len(s); i++ {
		if s[i] == '\\' && i+1 < len(s) {
			i++
			switch s[i] {
			case 'n':
				b.WriteByte('\n')
			case 't':
				b.WriteByte('\t')
			default:
				b.WriteByte(s[i])
			}
			continue
		}
		b.WriteByte(s[i])
	}
	return b.String()
}

// Run executes TLC. An error is returned only for machinery trouble (cannot start, scratch dir);
// model-level outcomes are in Result.
func Run(o Opts) (*Result, error) {
	if o.Timeout == 0 {
		o.Timeout = 10 * time.Minute
	}
	if o.HeapGB == 0 {
		o.HeapGB = 8
	}
	dir, err := os.MkdirTemp("", "vtlc-")
	if err != nil {
		return nil, err
	}
	defer os.RemoveAll(dir)
	ents, err := os.ReadDir(o.SpecDir)
	if err != nil {
		return nil, err
	}
	for _, e := range ents {
		if e.IsDir() || !(strings.HasSuffix(e.Name(), ".tla") || strings.HasSuffix(e.Name(), ".cfg")) {
			continue
		}
		b, err := os.ReadFile(filepath.Join(o.SpecDir, e.Name()))
		if err != nil {
			return nil, err
		}
		if err := os.WriteFile(filepath.Join(dir, e.Name()), b, 0o644); err != nil {
			return nil, err
		}
	}
	cfgName := o.Cfg
	if strings.Contains(o.Cfg, "\n") {
		cfgName = "generated.cfg"
		if err := os.WriteFile(filepath.Join(dir, cfgName), []byte(o.Cfg), 0o644); err != nil {
			return nil, err
		}
	}
	for n, b := range o.Files {
		if err := os.WriteFile(filepath.Join(dir, n), b, 0o644); err != nil {
			return nil, err
		}
	}
	args := []string{"-XX:+UseParallelGC", fmt.Sprintf("-Xmx%dg", o.HeapGB), "-Xss512m"}
	if o.DFS {
		args = append(args, "-Dtlc2.tool.queue.IStateQueue=StateDeque")
	}
	args = append(args, "-cp", Jar, "tlc2.TLC", "-noGenerateSpecTE", "-metadir", filepath.Join(dir, "md"), "-config", cfgName)
	if o.Workers > 0 {
		args = append(args, "-workers", strconv.Itoa(o.Workers))
	} else {
		args = append(args, "-workers", "auto")
	}
	if !o.Deadlock {
		args = append(args, "-deadlock")
	}
	if o.Coverage {
		args = append(args, "-coverage", "1")
	}
	if o.SimNum > 0 {
		args = append(args, "-simulate", fmt.Sprintf("num=%d", o.SimNum), "-depth", strconv.Itoa(o.SimDepth))
	}
	if o.Seed != 0 || o.SimNum > 0 {
		args = append(args, "-seed", strconv.FormatInt(o.Seed, 10))
	}
	args = append(args, o.Module+".tla")

	ctx, cancel := context.WithTimeout(context.Background(), o.Timeout)
	defer cancel()
	cmd := exec.CommandContext(ctx, "java", args...)
	cmd.Dir = dir
	cmd.Env = append(os.Environ(), "JAVA_TOOL_OPTIONS=")
	stdout, err := cmd.StdoutPipe()
	if err != nil {
		return nil, err
	}
	cmd.Stderr = cmd.Stdout
	res := &Result{Coverage: map[string]int64{}, Tags: map[string]int{}, Cmd: "java " + strings.Join(args, " ")}
	start := time.Now()
	if err := cmd.Start(); err != nil {
		return nil, err
	}
	var out strings.Builder
	rd := bufio.NewReaderSize(stdout, 1<<20)
	inErr := false
	for {
		line, err := rd.ReadString('\n')
		if len(line) > 0 {
			l := strings.TrimRight(line, "\r\n")
			if m := reTag.FindStringSubmatch(l); m != nil {
				res.Tags[m[1]]++
				if o.OnTag != nil {
					o.OnTag(m[1], unescape(m[2]))
				}
				if o.KeepOut {
					out.WriteString(line)
				}
			} else {
				if out.Len() < 4<<20 {
					out.WriteString(line)
				}
				if m := reStates.FindStringSubmatch(l); m != nil {
					res.Generated, _ = strconv.ParseInt(m[1], 10, 64)
					res.Distinct, _ = strconv.ParseInt(m[2], 10, 64)
				} else if m := reStatesS.FindStringSubmatch(l); m != nil {
					res.Generated, _ = strconv.ParseInt(m[1], 10, 64)
				} else if m := reDepth.FindStringSubmatch(l); m != nil {
					res.Depth, _ = strconv.Atoi(m[1])
				} else if m := reInv.FindStringSubmatch(l); m != nil {
					if res.Violated == "" {
						res.Violated = m[1]
					}
				} else if strings.HasPrefix(l, "Error: Deadlock reached") {
					res.Deadlock = true
				} else if m := reProp.FindStringSubmatch(l); m != nil && strings.Contains(l, "violated") {
					if res.Violated == "" {
						res.Violated = strings.TrimSpace(m[1] + " " + m[2])
					}
				} else if strings.HasPrefix(l, "Error:") {
					if res.ErrText == "" && !strings.HasPrefix(l, "Error: The behavior up to this point") &&
						!strings.HasPrefix(l, "Error: The following behavior constitutes") {
						res.ErrText = l
						inErr = true
					}
				} else if inErr {
					if l == "" || len(res.ErrText) > 2000 {
						inErr = false
					} else {
						res.ErrText += "\n" + l
					}
				}
				if o.Coverage {
					if m := reCoverage.FindStringSubmatch(l); m != nil {
						n, _ := strconv.ParseInt(m[4], 10, 64)
						res.Coverage[m[2]+"!"+m[1]] += n
					}
				}
			}
		}
		if err != nil {
			if err != io.EOF {
				res.ErrText += "\nread: " + err.Error()
			}
			break
		}
	}
	werr := cmd.Wait()
	res.Wall = time.Since(start)
	res.Out = out.String()
	if ctx.Err() == context.DeadlineExceeded {
		res.TimedOut = true
	}
	if werr != nil {
		if ee, ok := werr.(*exec.ExitError); ok {
			res.ExitCode = ee.ExitCode()
		} else {
			res.ExitCode = -1
		}
	}
	return res, nil
}

// OK reports whether the run finished without violation, error or timeout.
func (r *Result) OK() bool {
	return !r.TimedOut && r.Violated == "" && r.ErrText == "" && !r.Deadlock && (r.ExitCode == 0)
}

// Brief gives a one-line summary.
func (r *Result) Brief() string {
	return fmt.Sprintf("generated=%d distinct=%d depth=%d violated=%q err=%q timeout=%v exit=%d wall=%.1fs",
		r.Generated, r.Distinct, r.Depth, r.Violated, firstLine(r.ErrText), r.TimedOut, r.ExitCode, r.Wall.Seconds())
}

func firstLine(s string) string {
	if i := strings.IndexByte(s, '\n'); i >= 0 {
		return s[:i]
	}
	return s
}
