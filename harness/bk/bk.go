// Package bk runs a real broker.Service in-process and talks MQTT to it over in-memory connections.
package bk

import (
	"bufio"
	"context"
	"encoding/json"
	"fmt"
	"io"
	"os"
	"strings"
	"sync"
	"time"

	cfgp "github.com/emitter-io/config"
	"github.com/emitter-io/emitter/internal/broker"
	"github.com/emitter-io/emitter/internal/config"
	"github.com/emitter-io/emitter/internal/network/mqtt"
	"github.com/emitter-io/emitter/internal/provider/logging"
	"github.com/emitter-io/emitter/internal/security"
	"github.com/emitter-io/emitter/internal/security/license"
	"github.com/emitter-io/emitter/verif/memconn"
)

// Licenses of the three versions (v1 is the well-known test license of the repository; v2/v3 are generated once).
var (
	LicenseV1 = "zT83oDV0DWY5_JysbSTPTDr8KB0AAAAAAAAAAAAAAAI"
	licOnce   sync.Once
	licV2     string
	licV3     string
)

// License returns a license string of the requested version.
func License(version int) string {
	licOnce.Do(func() {
		licV2 = license.NewV2().String()
		licV3 = license.NewV3().String()
	})
	switch version {
	case 2:
		return licV2
	case 3:
		return licV3
	}
	return LicenseV1
}

type quietLogger struct{}

func (quietLogger) Name() string                           { return "quiet" }
func (quietLogger) Configure(map[string]interface{}) error { return nil }
func (quietLogger) Printf(format string, v ...interface{}) {}

var portMu sync.Mutex
var nextPort = 14000

// Broker is a running in-process broker.
type Broker struct {
	Svc     *broker.Service
	Dir     string
	Lic     license.License
	Cipher  license.Cipher
	cancel  context.CancelFunc
	Opts    Opts
	clients []*Client

	masterOnce sync.Once
	master     string
}

// Opts configures a broker.
type Opts struct {
	Mode       string // "emitter" | "mqtt"
	Storage    string // "inmemory" | "ssd" | "noop"
	LicenseVer int
	Dir        string // reuse this state directory ("" = fresh temp dir)
	KeepDir    bool
	NoCluster  bool
	NodeName   string
	// ContractURL: use the HTTP contract provider against this contract service (refreshing every ContractMs ms)
	ContractURL string
	ContractMs  int
}

// New starts a broker (never listens on a socket).
func New(o Opts) (*Broker, error) {
	dir := o.Dir
	if dir == "" {
		d, err := os.MkdirTemp("", "vbroker-")
		if err != nil {
			return nil, err
		}
		dir = d
	}
	portMu.Lock()
	nextPort++
	port := nextPort
	portMu.Unlock()
	cfg := &config.Config{
		ListenAddr: fmt.Sprintf("127.0.0.1:%d", port),
		License:    License(o.LicenseVer),
		Logging:    &cfgp.ProviderConfig{Provider: "quiet"},
	}
	if o.LicenseVer >= 2 {
		cfg.License = License(o.LicenseVer)
	}
	if o.Mode == "mqtt" {
		cfg.Matcher = "mqtt"
	}
	if !o.NoCluster {
		name := o.NodeName
		if name == "" {
			name = fmt.Sprintf("00:00:00:00:%02x:%02x", (port>>8)&0xff, port&0xff)
		}
		cfg.Cluster = &config.ClusterConfig{ListenAddr: fmt.Sprintf("127.0.0.1:%d", port+10000), AdvertiseAddr: fmt.Sprintf("127.0.0.1:%d", port+10000), Directory: dir + "/cluster", NodeName: name}
	}
	if o.ContractURL != "" {
		cfg.Contract = &cfgp.ProviderConfig{Provider: "http", Config: map[string]interface{}{"url": o.ContractURL, "interval": float64(o.ContractMs)}}
	}
	switch o.Storage {
	case "ssd":
		cfg.Storage = &cfgp.ProviderConfig{Provider: "ssd", Config: map[string]interface{}{"dir": dir + "/ssd"}}
	case "noop":
	default:
		cfg.Storage = &cfgp.ProviderConfig{Provider: "inmemory"}
	}
	ctx, cancel := context.WithCancel(context.Background())
	svc, err := newService(ctx, cfg)
	if err != nil {
		cancel()
		return nil, err
	}
	b := &Broker{Svc: svc, Dir: dir, cancel: cancel, Opts: o, Lic: svc.License}
	if b.Cipher, err = svc.License.Cipher(); err != nil {
		return nil, err
	}
	return b, nil
}

var newMu sync.Mutex

// NewService replaces the global logger; serialise creation and silence it.
func newService(ctx context.Context, cfg *config.Config) (*broker.Service, error) {
	newMu.Lock()
	defer newMu.Unlock()
	old := os.Stderr
	devnull, _ := os.OpenFile(os.DevNull, os.O_WRONLY, 0)
	os.Stderr = devnull
	defer func() { os.Stderr = old; devnull.Close() }()
	cfg.Logging = nil
	svc, err := broker.NewService(ctx, cfg)
	logging.Logger = quietLogger{}
	return svc, err
}

// Close stops the broker; the state directory is removed unless KeepDir.
func (b *Broker) Close() {
	for _, c := range b.clients {
		c.Drop()
	}
	b.Svc.Close()
	b.cancel()
	b.Svc.VerifRelease()
	if !b.Opts.KeepDir {
		os.RemoveAll(b.Dir)
	}
}

// MasterKey returns an encrypted master key of the broker's license.
func (b *Broker) MasterKey() string {
	// one master key per broker, as an operator has: every key issued through Key() derives from the same string
	b.masterOnce.Do(func() { b.master = b.newMasterKey() })
	return b.master
}

func (b *Broker) newMasterKey() string {
	k, err := b.Lic.NewMasterKey(1)
	if err != nil {
		panic(err)
	}
	s, err := b.Cipher.EncryptKey(k)
	if err != nil {
		panic(err)
	}
	return s
}

// Perms converts a permission string ("rwslpe") to the mask.
func Perms(s string) uint8 {
	var m uint8
	for _, c := range s {
		switch c {
		case 'r':
			m |= security.AllowRead
		case 'w':
			m |= security.AllowWrite
		case 's':
			m |= security.AllowStore
		case 'l':
			m |= security.AllowLoad
		case 'p':
			m |= security.AllowPresence
		case 'e':
			m |= security.AllowExtend
		case 'x':
			m |= security.AllowExecute
		case 'm':
			m |= security.AllowMaster
		}
	}
	return m
}

// Key mints a channel key with the real key generator.
func (b *Broker) Key(target, perms string, expires time.Time) (string, error) {
	k, e := b.Svc.VerifKeygen().CreateKey(b.MasterKey(), target, Perms(perms), expires)
	if e != nil {
		return "", fmt.Errorf("%s", e.Message)
	}
	return k, nil
}

// RawKey encrypts an arbitrary key record with the broker's cipher.
func (b *Broker) RawKey(k security.Key) string {
	s, err := b.Cipher.EncryptKey(k)
	if err != nil {
		panic(err)
	}
	return s
}

// ---------------------------------------------------------------------------------------------

// Client is one client connection.
type Client struct {
	B      *Broker
	C      *memconn.Conn // client end
	S      *memconn.Conn // server end
	Srv    *broker.Conn
	rd     *bufio.Reader
	ID     string
	Closed bool
	// PendingPong counts PINGRESPs of earlier probes that are still in the stream (skipped by the next Barrier)
	PendingPong int
}

// Attach creates a connection and hands its server end to the broker.
func (b *Broker) Attach() *Client {
	c, s := memconn.Pair()
	cl := &Client{B: b, C: c, S: s, rd: bufio.NewReaderSize(c, 1<<16)}
	cl.Srv = b.Svc.VerifAttach(s)
	cl.ID = cl.Srv.ID()
	b.clients = append(b.clients, cl)
	return cl
}

// Send writes one packet.
func (c *Client) Send(m mqtt.Message) error {
	_, err := m.EncodeTo(c.C)
	return err
}

// SendRaw writes raw bytes.
func (c *Client) SendRaw(b []byte) error {
	_, err := c.C.Write(b)
	return err
}

// ErrTimeout is returned when the broker does not answer in time.
var ErrTimeout = fmt.Errorf("timeout waiting for the broker")

// Barrier sends PINGREQ and returns every packet received before the PINGRESP. Requests of one connection are
// handled sequentially and fan-out is written before acknowledgements, so this collects the complete inbox.
func (c *Client) Barrier(timeout time.Duration) ([]mqtt.Message, error) {
	if err := c.Send(&mqtt.Pingreq{}); err != nil {
		return nil, err
	}
	var out []mqtt.Message
	c.C.SetReadDeadline(time.Now().Add(timeout))
	defer c.C.SetReadDeadline(time.Time{})
	for {
		m, err := mqtt.DecodePacket(c.rd, 1<<20)
		if err != nil {
			if os.IsTimeout(err) || strings.Contains(err.Error(), "deadline") {
				return out, ErrTimeout
			}
			return out, err
		}
		if m.Type() == mqtt.TypeOfPingresp {
			if c.PendingPong > 0 {
				c.PendingPong--
				continue
			}
			return out, nil
		}
		out = append(out, m)
	}
}

// Barrier0 reads until the next PINGRESP without sending a PINGREQ.
func (c *Client) Barrier0(timeout time.Duration) ([]mqtt.Message, error) {
	var out []mqtt.Message
	c.C.SetReadDeadline(time.Now().Add(timeout))
	defer c.C.SetReadDeadline(time.Time{})
	for {
		m, err := mqtt.DecodePacket(c.rd, 1<<20)
		if err != nil {
			return out, err
		}
		if m.Type() == mqtt.TypeOfPingresp {
			return out, nil
		}
		out = append(out, m)
	}
}

// ReadUntilEOF reads packets until the broker closes the connection.
func (c *Client) ReadUntilEOF(timeout time.Duration) ([]mqtt.Message, error) {
	var out []mqtt.Message
	c.C.SetReadDeadline(time.Now().Add(timeout))
	defer c.C.SetReadDeadline(time.Time{})
	for {
		m, err := mqtt.DecodePacket(c.rd, 1<<20)
		if err != nil {
			if err == io.EOF || err == io.ErrUnexpectedEOF {
				return out, nil
			}
			if os.IsTimeout(err) || strings.Contains(err.Error(), "deadline") {
				return out, ErrTimeout
			}
			return out, nil
		}
		out = append(out, m)
	}
}

// Drop closes the client end abruptly and waits until the broker has finished Close() (it closes its end last).
func (c *Client) Drop() bool {
	if c.Closed {
		return true
	}
	c.Closed = true
	c.C.Close()
	return c.WaitServerClosed(5 * time.Second)
}

// WaitServerClosed waits until the broker-side Close() has run to its end.
func (c *Client) WaitServerClosed(d time.Duration) bool {
	select {
	case <-c.S.Closed():
		return true
	case <-time.After(d):
		return false
	}
}

// ---------------------------------------------------------------------------------------------

// Pkt is the abstract form of a packet received by a client, as logged in traces.
type Pkt struct {
	Msgs   [][2]string // (history reply) channel, payload
	T      string      `json:"t"`             // connack suback unsuback puback pub err resp pres other
	Code   int         `json:"code"`          // connack / suback return code, error or response status
	Ch     string      `json:"ch"`            // channel of a delivered message / presence event / response
	P      string      `json:"p"`             // payload of a delivered message
	Api    string      `json:"api"`           // emitter request name for responses
	Ev     string      `json:"ev"`            // presence event
	Who    []string    `json:"who"`           // presence: connection ids (mapped to client names by the driver)
	Users  []string    `json:"users"`         // presence: usernames, aligned with Who
	Name   string      `json:"name"`          // link response name
	Key    string      `json:"key,omitempty"` // keygen response key
	Retain bool        `json:"retain"`
}

// Abstract converts a received packet.
func Abstract(m mqtt.Message) Pkt {
	switch p := m.(type) {
	case *mqtt.Connack:
		return Pkt{T: "connack", Code: int(p.ReturnCode)}
	case *mqtt.Suback:
		code := -1
		if len(p.Qos) == 1 {
			code = int(p.Qos[0])
		}
		return Pkt{T: "suback", Code: code}
	case *mqtt.Unsuback:
		return Pkt{T: "unsuback"}
	case *mqtt.Puback:
		return Pkt{T: "puback"}
	case *mqtt.Publish:
		topic := string(p.Topic)
		if strings.HasPrefix(topic, "emitter/") {
			var j struct {
				Status  int             `json:"status"`
				Event   string          `json:"event"`
				Channel string          `json:"channel"`
				Name    string          `json:"name"`
				Key     string          `json:"key"`
				Who     json.RawMessage `json:"who"`
				Msgs    []struct {
					Channel string `json:"channel"`
					Payload []byte `json:"payload"`
				} `json:"messages"`
			}
			if err := json.Unmarshal(p.Payload, &j); err == nil {
				api := strings.TrimSuffix(strings.TrimPrefix(topic, "emitter/"), "/")
				if api == "error" {
					return Pkt{T: "err", Code: j.Status}
				}
				if api == "presence" && (j.Event == "subscribe" || j.Event == "unsubscribe") {
					var who struct{ ID, Username string }
					json.Unmarshal(j.Who, &who)
					return Pkt{T: "pres", Ev: j.Event, Ch: j.Channel, Who: []string{who.ID}, Users: []string{who.Username}}
				}
				if api == "history" && j.Status == 0 {
					out := Pkt{T: "hist"}
					for _, m := range j.Msgs {
						out.Msgs = append(out.Msgs, [2]string{m.Channel, string(m.Payload)})
					}
					return out
				}
				out := Pkt{T: "resp", Api: api, Code: j.Status, Ch: j.Channel, Ev: j.Event, Name: j.Name, Key: j.Key}
				if len(j.Who) > 0 && j.Who[0] == '[' {
					var who []struct{ ID, Username string }
					json.Unmarshal(j.Who, &who)
					for _, w := range who {
						out.Who = append(out.Who, w.ID)
						out.Users = append(out.Users, w.Username)
					}
				}
				return out
			}
		}
		return Pkt{T: "pub", Ch: topic, P: string(p.Payload), Retain: p.Header.Retain}
	}
	return Pkt{T: "other:" + m.String()}
}
