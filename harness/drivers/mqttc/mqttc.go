// Package mqttc binds spec/Mqtt.tla (the MQTT 3.1.1 byte layout) to internal/network/mqtt (property C16).
package mqttc

import (
	"bufio"
	"bytes"
	"encoding/json"
	"fmt"
	"io"
	"math/rand"
	"reflect"
	"runtime"
	"sync"

	"github.com/eclipse/paho.mqtt.golang/packets"
	"github.com/emitter-io/emitter/internal/network/mqtt"
	"github.com/emitter-io/emitter/verif/core"
	"github.com/emitter-io/emitter/verif/tlc"
)

type run struct {
	N int  `json:"n"`
	B byte `json:"b"`
}

func (r run) bytes() []byte { return bytes.Repeat([]byte{r.B}, r.N) }

type hdr struct {
	Dup    bool  `json:"dup"`
	Qos    uint8 `json:"qos"`
	Retain bool  `json:"retain"`
}

type pkt struct {
	T          string `json:"t"`
	Proto      run    `json:"proto"`
	Version    uint8  `json:"version"`
	UserFlag   bool   `json:"userFlag"`
	PassFlag   bool   `json:"passFlag"`
	WillRetain bool   `json:"willRetain"`
	WillQos    uint8  `json:"willQos"`
	WillFlag   bool   `json:"willFlag"`
	Clean      bool   `json:"clean"`
	Keepalive  uint16 `json:"keepalive"`
	ClientID   run    `json:"clientId"`
	WillTopic  run    `json:"willTopic"`
	WillMsg    run    `json:"willMsg"`
	User       run    `json:"user"`
	Pass       run    `json:"pass"`
	Code       uint8  `json:"code"`
	H          hdr    `json:"h"`
	Topic      run    `json:"topic"`
	ID         uint16 `json:"id"`
	Payload    run    `json:"payload"`
	Subs       []struct {
		Topic run   `json:"topic"`
		Qos   uint8 `json:"qos"`
	} `json:"subs"`
	Codes  []uint8 `json:"codes"`
	Topics []run   `json:"topics"`
}

// build constructs the emitter packet value for a model packet.
func build(p *pkt) mqtt.Message {
	h := mqtt.Header{DUP: p.H.Dup, QOS: p.H.Qos, Retain: p.H.Retain}
	switch p.T {
	case "connect":
		c := &mqtt.Connect{ProtoName: p.Proto.bytes(), Version: p.Version, UsernameFlag: p.UserFlag, PasswordFlag: p.PassFlag,
			WillRetainFlag: p.WillRetain, WillQOS: p.WillQos, WillFlag: p.WillFlag, CleanSeshFlag: p.Clean, KeepAlive: p.Keepalive,
			ClientID: p.ClientID.bytes()}
		if p.WillFlag {
			c.WillTopic, c.WillMessage = p.WillTopic.bytes(), p.WillMsg.bytes()
		}
		if p.UserFlag {
			c.Username = p.User.bytes()
		}
		if p.PassFlag {
			c.Password = p.Pass.bytes()
		}
		return c
	case "connack":
		return &mqtt.Connack{ReturnCode: p.Code}
	case "publish":
		m := &mqtt.Publish{Header: h, Topic: p.Topic.bytes(), Payload: p.Payload.bytes()}
		if h.QOS > 0 {
			m.MessageID = p.ID
		}
		return m
	case "puback":
		return &mqtt.Puback{MessageID: p.ID}
	case "pubrec":
		return &mqtt.Pubrec{MessageID: p.ID}
	case "pubrel":
		return &mqtt.Pubrel{MessageID: p.ID, Header: h}
	case "pubcomp":
		return &mqtt.Pubcomp{MessageID: p.ID}
	case "subscribe":
		s := &mqtt.Subscribe{Header: h, MessageID: p.ID}
		for _, t := range p.Subs {
			s.Subscriptions = append(s.Subscriptions, mqtt.TopicQOSTuple{Qos: t.Qos, Topic: t.Topic.bytes()})
		}
		return s
	case "suback":
		s := &mqtt.Suback{MessageID: p.ID}
		s.Qos = append(s.Qos, p.Codes...)
		return s
	case "unsubscribe":
		s := &mqtt.Unsubscribe{Header: h, MessageID: p.ID}
		for _, t := range p.Topics {
			s.Topics = append(s.Topics, mqtt.TopicQOSTuple{Topic: t.bytes()})
		}
		return s
	case "unsuback":
		return &mqtt.Unsuback{MessageID: p.ID}
	case "pingreq":
		return &mqtt.Pingreq{}
	case "pingresp":
		return &mqtt.Pingresp{}
	case "disconnect":
		return &mqtt.Disconnect{}
	}
	return nil
}

// norm makes nil and empty slices comparable.
func norm(m mqtt.Message) mqtt.Message {
	e := func(b []byte) []byte {
		if len(b) == 0 {
			return nil
		}
		return b
	}
	switch v := m.(type) {
	case *mqtt.Connect:
		c := *v
		c.ProtoName, c.ClientID, c.WillTopic, c.WillMessage, c.Username, c.Password = e(c.ProtoName), e(c.ClientID), e(c.WillTopic), e(c.WillMessage), e(c.Username), e(c.Password)
		return &c
	case *mqtt.Publish:
		c := *v
		c.Topic, c.Payload = e(c.Topic), e(c.Payload)
		return &c
	case *mqtt.Subscribe:
		c := *v
		c.Subscriptions = nil
		for _, t := range v.Subscriptions {
			c.Subscriptions = append(c.Subscriptions, mqtt.TopicQOSTuple{Qos: t.Qos, Topic: e(t.Topic)})
		}
		return &c
	case *mqtt.Unsubscribe:
		c := *v
		c.Topics = nil
		for _, t := range v.Topics {
			c.Topics = append(c.Topics, mqtt.TopicQOSTuple{Qos: t.Qos, Topic: e(t.Topic)})
		}
		return &c
	case *mqtt.Suback:
		c := *v
		if len(c.Qos) == 0 {
			c.Qos = nil
		}
		return &c
	}
	return m
}

// bodyLen returns the remaining length of an encoded packet.
func bodyLen(raw []byte) int {
	i := 1
	for i < len(raw) && raw[i]&0x80 != 0 {
		i++
	}
	return len(raw) - i - 1
}

func safe(f func()) (panicked any) {
	defer func() { panicked = recover() }()
	f()
	return nil
}

// pahoAgrees decodes the expected bytes with the independent implementation and compares the fields with the model
// packet: a disagreement means the SPECIFICATION (or the grid) is wrong - machinery trouble, never a verdict.
func pahoAgrees(p *pkt, raw []byte) error {
	cp, err := packets.ReadPacket(bytes.NewReader(raw))
	if err != nil {
		return fmt.Errorf("paho cannot read the expected bytes: %v", err)
	}
	switch v := cp.(type) {
	case *packets.ConnectPacket:
		ok := v.ProtocolName == string(p.Proto.bytes()) && v.ProtocolVersion == p.Version && v.UsernameFlag == p.UserFlag && v.PasswordFlag == p.PassFlag &&
			v.WillRetain == p.WillRetain && v.WillQos == p.WillQos && v.WillFlag == p.WillFlag && v.CleanSession == p.Clean && v.Keepalive == p.Keepalive &&
			v.ClientIdentifier == string(p.ClientID.bytes())
		if p.WillFlag {
			ok = ok && v.WillTopic == string(p.WillTopic.bytes()) && bytes.Equal(v.WillMessage, p.WillMsg.bytes())
		}
		if p.UserFlag {
			ok = ok && v.Username == string(p.User.bytes())
		}
		if p.PassFlag {
			ok = ok && bytes.Equal(v.Password, p.Pass.bytes())
		}
		if !ok {
			return fmt.Errorf("paho decodes CONNECT differently: %+v", v)
		}
	case *packets.ConnackPacket:
		if v.ReturnCode != p.Code || v.SessionPresent {
			return fmt.Errorf("paho connack %+v", v)
		}
	case *packets.PublishPacket:
		if v.TopicName != string(p.Topic.bytes()) || !bytes.Equal(v.Payload, p.Payload.bytes()) || v.Qos != p.H.Qos || v.Dup != p.H.Dup || v.Retain != p.H.Retain || (p.H.Qos > 0 && v.MessageID != p.ID) {
			return fmt.Errorf("paho publish differs")
		}
	case *packets.PubackPacket:
		if v.MessageID != p.ID {
			return fmt.Errorf("paho puback id")
		}
	case *packets.PubrecPacket:
		if v.MessageID != p.ID {
			return fmt.Errorf("paho pubrec id")
		}
	case *packets.PubrelPacket:
		if v.MessageID != p.ID || v.Qos != p.H.Qos {
			return fmt.Errorf("paho pubrel")
		}
	case *packets.PubcompPacket:
		if v.MessageID != p.ID {
			return fmt.Errorf("paho pubcomp id")
		}
	case *packets.UnsubackPacket:
		if v.MessageID != p.ID {
			return fmt.Errorf("paho unsuback id")
		}
	case *packets.SubscribePacket:
		if v.MessageID != p.ID || len(v.Topics) != len(p.Subs) {
			return fmt.Errorf("paho subscribe")
		}
		for i := range p.Subs {
			if v.Topics[i] != string(p.Subs[i].Topic.bytes()) || v.Qoss[i] != p.Subs[i].Qos {
				return fmt.Errorf("paho subscribe tuple %d", i)
			}
		}
	case *packets.SubackPacket:
		if v.MessageID != p.ID || !bytes.Equal(v.ReturnCodes, p.Codes) && !(len(v.ReturnCodes) == 0 && len(p.Codes) == 0) {
			return fmt.Errorf("paho suback")
		}
	case *packets.UnsubscribePacket:
		if v.MessageID != p.ID || len(v.Topics) != len(p.Topics) {
			return fmt.Errorf("paho unsubscribe")
		}
		for i := range p.Topics {
			if v.Topics[i] != string(p.Topics[i].bytes()) {
				return fmt.Errorf("paho unsubscribe topic %d", i)
			}
		}
	case *packets.PingreqPacket, *packets.PingrespPacket, *packets.DisconnectPacket:
	default:
		return fmt.Errorf("paho: unexpected packet type %T", cp)
	}
	return nil
}

// classify names the listed deviation (if any) that explains a decode difference.
func classify(p *pkt, got mqtt.Message) string {
	if c, ok := got.(*mqtt.Connect); ok && p.T == "connect" && p.WillQos > 0 {
		cc := *c
		cc.WillQOS = p.WillQos
		if reflect.DeepEqual(norm(&cc), norm(build(p))) {
			return "will_qos_unshifted"
		}
	}
	return ""
}

// Run is the C16 check.
func Run(c *core.Ctx) {
	c.Level = "exploration"
	type item struct {
		P     json.RawMessage `json:"p"`
		Bytes []run           `json:"bytes"`
	}
	var n, nontrivial, expectedCount int64
	var lens = map[int]bool{}
	check := func(js string) {
		var it item
		if err := json.Unmarshal([]byte(js), &it); err != nil {
			core.Fatalf("PKT: %v", err)
		}
		var p pkt
		if err := json.Unmarshal(it.P, &p); err != nil {
			core.Fatalf("PKT.p: %v", err)
		}
		var want []byte
		for _, r := range it.Bytes {
			want = append(want, r.bytes()...)
		}
		n++
		if len(want) > 2 {
			nontrivial++
		}
		lens[len(want)] = true
		if n%977 == 1 {
			c.Sample(map[string]any{"packet": it.P, "expected_len": len(want), "expected_head_hex": fmt.Sprintf("%x", want[:min(len(want), 24)])})
		}
		fail := func(what string) {
			replay, _ := json.Marshal(map[string]any{"e": "packet", "p": it.P, "expected_hex_head": fmt.Sprintf("%x", want[:min(len(want), 64)]), "expected_len": len(want)})
			c.Violation(what+": "+string(it.P), replay)
		}
		// the specification's layout must be what an independent MQTT 3.1.1 implementation reads
		if err := pahoAgrees(&p, want); err != nil {
			core.Fatalf("specification vs paho for %s: %v", it.P, err)
		}
		m := build(&p)
		if m == nil {
			core.Fatalf("unknown packet type %q", p.T)
		}
		// 1. encode: bytes = MQTT 3.1.1 layout
		var buf bytes.Buffer
		var encErr error
		if pn := safe(func() { _, encErr = m.EncodeTo(&buf) }); pn != nil {
			fail(fmt.Sprintf("EncodeTo panicked (%v) for a packet of %d bytes", pn, len(want)))
			return
		}
		// the encoder works in a 64 KiB buffer that also holds the fixed header: bodies above 65530 bytes are
		// beyond ITS size limit and must be refused with an error (the decode direction is still checked below)
		if bodyLen(want) > 65530 {
			if encErr == nil {
				fail(fmt.Sprintf("EncodeTo accepted a body of %d bytes, more than its buffer holds", bodyLen(want)))
				return
			}
			c.Add("refused_over_encoder_limit", 1)
		} else if encErr != nil {
			fail(fmt.Sprintf("EncodeTo failed (%v) for a packet within the size limit (%d bytes)", encErr, len(want)))
			return
		}
		if encErr == nil && !bytes.Equal(buf.Bytes(), want) {
			fail(fmt.Sprintf("EncodeTo bytes differ from the MQTT 3.1.1 layout (got %d bytes, head %x)", buf.Len(), buf.Bytes()[:min(buf.Len(), 24)]))
			return
		}
		// 2. decode of the reference bytes gives the packet back (= round trip, since encode is exact)
		var got mqtt.Message
		var decErr error
		if pn := safe(func() { got, decErr = mqtt.DecodePacket(bufio.NewReader(bytes.NewReader(want)), 65536) }); pn != nil {
			fail(fmt.Sprintf("DecodePacket panicked (%v) on well-formed bytes", pn))
			return
		}
		if decErr != nil {
			fail(fmt.Sprintf("DecodePacket rejected well-formed bytes: %v", decErr))
			return
		}
		if !reflect.DeepEqual(norm(got), norm(m)) {
			if tag := classify(&p, got); tag != "" && c.Known(tag) {
				return
			}
			fail(fmt.Sprintf("DecodePacket fields differ: got %+v", got))
			return
		}
		// 3. the same bytes arriving in pieces (a TCP stream is not packet-aligned): cut after every byte for short
		// packets, at a few offsets for long ones, and trickled 1..3 bytes at a time; followed by a PINGREQ that must
		// still decode (framing kept)
		cuts := []int{}
		if len(want) <= 48 {
			for i := 1; i < len(want); i++ {
				cuts = append(cuts, i)
			}
		} else {
			cuts = []int{1, 2, 3, 4, 5, len(want) / 2, len(want) - 2, len(want) - 1}
		}
		cuts = append(cuts, -1, -2, -3) // trickle
		for _, cut := range cuts {
			src := &pieces{data: append(append([]byte{}, want...), 0xC0, 0x00), cut: cut}
			rd := bufio.NewReaderSize(src, 16)
			var g2, g3 mqtt.Message
			var e2, e3 error
			if pn := safe(func() {
				g2, e2 = mqtt.DecodePacket(rd, 65536)
				if e2 == nil {
					g3, e3 = mqtt.DecodePacket(rd, 65536)
				}
			}); pn != nil {
				fail(fmt.Sprintf("DecodePacket panicked (%v) on well-formed bytes arriving in pieces (cut %d)", pn, cut))
				return
			}
			if e2 != nil || !reflect.DeepEqual(norm(g2), norm(m)) {
				if tag := classify(&p, g2); tag != "" && c.Known(tag) {
					continue
				}
				fail(fmt.Sprintf("DecodePacket of the same bytes arriving in pieces (cut after byte %d; negative = trickled) differs: got %+v err %v", cut, g2, e2))
				return
			}
			if e3 != nil || g3 == nil || g3.Type() != mqtt.TypeOfPingreq {
				fail(fmt.Sprintf("after a packet that arrived in pieces (cut %d) the next packet (PINGREQ) decodes as %+v err %v: framing lost", cut, g3, e3))
				return
			}
		}
		c.Add("segmented_decodes", int64(len(cuts)))
	}
	r, err := tlc.Run(tlc.Opts{SpecDir: core.SpecDir(), Module: "MC_Mqtt", Cfg: fmt.Sprintf("CONSTANT Tier = %q\nINIT Init\nNEXT Next\n", c.Tier), Workers: 1,
		OnTag: func(tag, js string) {
			switch tag {
			case "PKT":
				check(js)
			case "COUNT":
				var x struct{ N int64 }
				json.Unmarshal([]byte(js), &x)
				expectedCount = x.N
			}
		}})
	if err != nil || !r.OK() {
		core.Fatalf("MC_Mqtt: %v %s\n%s", err, r.Brief(), core.Tail(r.Out, 2000))
	}
	if n == 0 || n != expectedCount {
		core.Fatalf("received %d packets from TLC, the grid has %d", n, expectedCount)
	}
	concurrentEncode(c)
	c.Set("evaluations", n)
	c.Set("distinct_nontrivial", nontrivial)
	c.Set("distinct_encoded_lengths", len(lens))
	c.Set("exhaustive", true)
	c.Set("rule", "TLC enumerates the packet grid (14 types; every CONNECT flag combination incl. will QoS 0-2; PUBLISH dup/qos/retain; remaining lengths at 0,1,127/128,16383/16384,65535 and around the encode buffer; 0..3 subscription tuples; ids 0,1,256,65535) and computes the MQTT 3.1.1 bytes; non-trivial = packets with a body (more than the 2-byte fixed header); all packets of the grid are distinct values")
	c.Assume = append(c.Assume, "the layout operators of Mqtt.tla are cross-checked on every packet against github.com/eclipse/paho.mqtt.golang/packets (a disagreement is exit 2)",
		"strings and payloads are runs of one byte value (content fidelity of mixed bytes is exercised by the broker-level checks)")
	c.Finish()
}

// slowWriter consumes what it is given in pieces, yielding in between, as a socket under load does.
type slowWriter struct{ buf []byte }

func (w *slowWriter) Write(p []byte) (int, error) {
	for off := 0; off < len(p); {
		n := 1 + (len(p)-off)/3
		if off+n > len(p) {
			n = len(p) - off
		}
		w.buf = append(w.buf, p[off:off+n]...)
		off += n
		runtime.Gosched()
	}
	return len(p), nil
}

// concurrentEncode: every connection encodes on its own goroutine, all sharing the encoder's buffer pool. After a
// batch of (rightly) refused oversized publishes - the error path of the pool - 16 goroutines encode distinct
// packets of every emitted kind into slow writers; each must produce exactly the bytes the same packet encodes to
// alone (which the grid above compared with the MQTT 3.1.1 layout for its shape).
func concurrentEncode(c *core.Ctx) {
	var pkts []mqtt.Message
	for g := 0; g < 16; g++ {
		for i, size := range []int{0, 1, 90, 127, 128, 2000, 16384, 40000, 65000} {
			pkts = append(pkts, &mqtt.Publish{Header: mqtt.Header{QOS: uint8(i % 3), Retain: i%2 == 0}, MessageID: uint16(1 + g*100 + i),
				Topic: []byte(fmt.Sprintf("k%02d/ch%d/", g, i)), Payload: bytes.Repeat([]byte{byte(1 + g*9 + i)}, size)})
		}
		pkts = append(pkts, &mqtt.Suback{MessageID: uint16(0x100*g + 7), Qos: []uint8{uint8(g % 3), 0x80}}, &mqtt.Puback{MessageID: uint16(0x101 * (g + 1))},
			&mqtt.Unsuback{MessageID: uint16(0x33 + g)}, &mqtt.Connack{ReturnCode: uint8(g % 6)}, &mqtt.Pingresp{})
	}
	want := make([][]byte, len(pkts))
	for i, p := range pkts {
		var b bytes.Buffer
		if _, err := p.EncodeTo(&b); err != nil {
			core.Fatalf("sequential encode of a packet within the limit failed: %v", err)
		}
		want[i] = append([]byte{}, b.Bytes()...)
	}
	rounds := 60
	if !c.Quick() {
		rounds = 600
	}
	var bad int64
	var mu sync.Mutex
	for round := 0; round < 4; round++ {
		// the refusal path of the encoder
		big := &mqtt.Publish{Topic: []byte("big/"), Payload: make([]byte, 65600)}
		for i := 0; i < 8; i++ {
			var b bytes.Buffer
			if _, err := big.EncodeTo(&b); err == nil {
				core.Fatalf("an oversized PUBLISH was encoded")
			}
		}
		var wg sync.WaitGroup
		for g := 0; g < 16; g++ {
			wg.Add(1)
			go func(g int) {
				defer wg.Done()
				r := rand.New(rand.NewSource(c.Seed*31 + int64(g) + int64(round)*1000))
				for i := 0; i < rounds; i++ {
					j := r.Intn(len(pkts))
					w := &slowWriter{}
					_, err := pkts[j].EncodeTo(w)
					if err != nil || !bytes.Equal(w.buf, want[j]) {
						mu.Lock()
						bad++
						if bad <= 3 {
							replay, _ := json.Marshal(map[string]any{"e": "concurrent-encode", "packet": fmt.Sprintf("%T", pkts[j]), "expected_len": len(want[j]), "got_len": len(w.buf),
								"expected_head": fmt.Sprintf("%x", want[j][:min(len(want[j]), 32)]), "got_head": fmt.Sprintf("%x", w.buf[:min(len(w.buf), 32)]), "error": fmt.Sprint(err)})
							c.Violation(fmt.Sprintf("a %T encoded while 15 other goroutines encode other packets differs from its own encoding (got %d bytes head %x, want %d bytes head %x, err %v)",
								pkts[j], len(w.buf), w.buf[:min(len(w.buf), 16)], len(want[j]), want[j][:min(len(want[j]), 16)], err), replay)
						}
						mu.Unlock()
					}
				}
			}(g)
		}
		wg.Wait()
	}
	c.Add("concurrent_encodings", int64(4*16*rounds))
}

// pieces hands out data in two pieces (cut > 0: the first `cut` bytes, then the rest) or trickles it (-k: k bytes per Read).
type pieces struct {
	data []byte
	cut  int
	off  int
}

func (p *pieces) Read(b []byte) (int, error) {
	if p.off >= len(p.data) {
		return 0, io.EOF
	}
	n := len(p.data) - p.off
	switch {
	case p.cut > 0 && p.off < p.cut:
		n = p.cut - p.off
	case p.cut < 0:
		n = -p.cut
	}
	if n > len(b) {
		n = len(b)
	}
	if n > len(p.data)-p.off {
		n = len(p.data) - p.off
	}
	copy(b, p.data[p.off:p.off+n])
	p.off += n
	return n, nil
}
