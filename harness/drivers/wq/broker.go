package wq

import (
	"bytes"
	"fmt"
	"io"
	"math/rand"
	"net"
	"strconv"
	"strings"
	"sync"
	"time"

	"github.com/emitter-io/emitter/internal/network/listener"
	"github.com/emitter-io/emitter/internal/network/mqtt"
	"github.com/emitter-io/emitter/internal/network/websocket"
	"github.com/emitter-io/emitter/verif/bk"
	"github.com/emitter-io/emitter/verif/core"
	"github.com/emitter-io/emitter/verif/memconn"
)

// rawClient is a client whose connection reaches the broker through a real listener.Conn (write queue, limiter and
// the periodic flush timer, as behind the broker's TCP listener) and whose inbound bytes are kept raw: the framing is
// judged by the parser below, not by the repository's decoder.
type rawClient struct {
	ws   *fakeWS // set for a websocket client (then c is nil)
	c    *memconn.Conn
	mu   sync.Mutex
	buf  []byte
	done chan struct{}
}

// fakeWS is the frame source / sink under the broker's websocket transport (what gorilla's *websocket.Conn is in
// production).  Like gorilla it allows ONE writer at a time; unlike gorilla it does not panic on a second one but
// remembers it, and the subscriber's stream then ends with a torn-packet marker.
type fakeWS struct {
	in         chan []byte
	closed     chan struct{}
	once       sync.Once
	mu         sync.Mutex
	open       int
	concurrent bool
	rc         *rawClient
}

type wsWriter struct {
	ws  *fakeWS
	buf []byte
}

func (w *wsWriter) Write(p []byte) (int, error) { w.buf = append(w.buf, p...); return len(p), nil }
func (w *wsWriter) Close() error {
	w.ws.mu.Lock()
	w.ws.open--
	w.ws.mu.Unlock()
	w.ws.rc.mu.Lock()
	w.ws.rc.buf = append(w.ws.rc.buf, w.buf...)
	w.ws.rc.mu.Unlock()
	return nil
}

func (f *fakeWS) NextReader() (int, io.Reader, error) {
	select {
	case b := <-f.in:
		return 2, bytes.NewReader(b), nil // binary message
	case <-f.closed:
		return 0, nil, io.EOF
	}
}
func (f *fakeWS) NextWriter(int) (io.WriteCloser, error) {
	f.mu.Lock()
	f.open++
	if f.open > 1 {
		f.concurrent = true
	}
	f.mu.Unlock()
	time.Sleep(5 * time.Microsecond) // widen the window in which a second, unserialised writer would show
	return &wsWriter{ws: f}, nil
}
func (f *fakeWS) Close() error                     { f.once.Do(func() { close(f.closed) }); return nil }
func (f *fakeWS) LocalAddr() net.Addr              { return &net.TCPAddr{} }
func (f *fakeWS) RemoteAddr() net.Addr             { return &net.TCPAddr{} }
func (f *fakeWS) SetReadDeadline(time.Time) error  { return nil }
func (f *fakeWS) SetWriteDeadline(time.Time) error { return nil }

// attachWS connects a client through the broker's websocket transport; every packet the client sends is one frame.
func attachWS(b *bk.Broker) *rawClient {
	rc := &rawClient{done: make(chan struct{})}
	rc.ws = &fakeWS{in: make(chan []byte, 1<<16), closed: make(chan struct{}), rc: rc}
	b.Svc.VerifAttach(websocket.VerifNewTransport(rc.ws))
	return rc
}

func attachRaw(b *bk.Broker, rate int) *rawClient {
	if rate < 0 {
		return attachWS(b)
	}
	c, s := memconn.Pair()
	b.Svc.VerifAttach(listener.VerifNewConn(s, rate, true))
	rc := &rawClient{c: c, done: make(chan struct{})}
	go func() {
		defer close(rc.done)
		p := make([]byte, 1<<16)
		for {
			n, err := c.Read(p)
			if n > 0 {
				rc.mu.Lock()
				rc.buf = append(rc.buf, p[:n]...)
				rc.mu.Unlock()
			}
			if err != nil {
				return
			}
		}
	}()
	return rc
}

func (rc *rawClient) send(m mqtt.Message) {
	var b bytes.Buffer
	m.EncodeTo(&b)
	rc.write(b.Bytes())
}

func (rc *rawClient) write(p []byte) {
	if rc.ws != nil {
		rc.ws.in <- append([]byte{}, p...)
		return
	}
	rc.c.Write(p)
}

// packets splits the raw inbound bytes into MQTT packets by the fixed header alone. ok is false when the bytes do
// not end on a packet boundary (yet).
func (rc *rawClient) packets() (out [][]byte, ok bool) {
	rc.mu.Lock()
	b := append([]byte{}, rc.buf...)
	rc.mu.Unlock()
	for len(b) > 0 {
		n, shift, i := 0, uint(0), 1
		for {
			if i >= len(b) || i > 4 {
				return out, false
			}
			d := b[i]
			n |= int(d&0x7f) << shift
			shift += 7
			i++
			if d&0x80 == 0 {
				break
			}
		}
		if i+n > len(b) {
			return out, false
		}
		out = append(out, b[:i+n])
		b = b[i+n:]
	}
	return out, true
}

// waitPong sends a PINGREQ and waits until the inbound bytes end with the PINGRESP on a packet boundary.
func (rc *rawClient) waitPong(pongs int, d time.Duration) error {
	rc.send(&mqtt.Pingreq{})
	deadline := time.Now().Add(d)
	for time.Now().Before(deadline) {
		if pk, ok := rc.packets(); ok {
			n := 0
			for _, p := range pk {
				if p[0] == 0xD0 {
					n++
				}
			}
			if n >= pongs {
				return nil
			}
		}
		time.Sleep(2 * time.Millisecond)
	}
	return fmt.Errorf("no PINGRESP within %v", d)
}

// BrokerStress runs really concurrent publishers through a whole broker: npub clients publish n messages each to one
// channel while nsub subscribed clients receive them; every connection sits behind a real listener.Conn with the
// given flush rate (rate < 0: behind the websocket transport instead).  One "stream" event per subscriber: the decoded sequence of (publisher, index) it received.
func BrokerStress(rate, npub, nsub, n int, rng *rand.Rand, label string) ([]*core.Trace, error) {
	b, err := bk.New(bk.Opts{LicenseVer: 1 + rng.Intn(3), Storage: "noop", NoCluster: true})
	if err != nil {
		return nil, err
	}
	defer b.Close()
	key, err := b.Key("#/", "rw", time.Unix(0, 0))
	if err != nil {
		return nil, err
	}
	topic := []byte(key + "/stress/x/")
	var subs, pubs []*rawClient
	for i := 0; i < nsub; i++ {
		rc := attachRaw(b, rate)
		rc.send(&mqtt.Connect{ClientID: []byte(fmt.Sprintf("s%d", i)), ProtoName: []byte("MQTT"), Version: 4, KeepAlive: 60})
		rc.send(&mqtt.Subscribe{MessageID: 1, Subscriptions: []mqtt.TopicQOSTuple{{Topic: topic}}})
		if err := rc.waitPong(1, 10*time.Second); err != nil {
			return nil, fmt.Errorf("subscriber setup: %v", err)
		}
		subs = append(subs, rc)
	}
	writers := []string{}
	for i := 0; i < npub; i++ {
		rc := attachRaw(b, rate)
		rc.send(&mqtt.Connect{ClientID: []byte(fmt.Sprintf("p%d", i)), ProtoName: []byte("MQTT"), Version: 4, KeepAlive: 60})
		if err := rc.waitPong(1, 10*time.Second); err != nil {
			return nil, fmt.Errorf("publisher setup: %v", err)
		}
		pubs = append(pubs, rc)
		writers = append(writers, fmt.Sprintf("w%d", i+1))
	}
	// subscribers that come and go: two more clients hold the same subscription and close their sockets abruptly while
	// the publishers are running (their transports refuse writes before the broker has unsubscribed them). The stable
	// subscribers above must not notice.
	var churn []*rawClient
	for i := 0; i < 2; i++ {
		rc := attachRaw(b, rate)
		rc.send(&mqtt.Connect{ClientID: []byte(fmt.Sprintf("x%d", i)), ProtoName: []byte("MQTT"), Version: 4, KeepAlive: 60})
		rc.send(&mqtt.Subscribe{MessageID: 1, Subscriptions: []mqtt.TopicQOSTuple{{Topic: topic}}})
		if err := rc.waitPong(1, 10*time.Second); err != nil {
			return nil, fmt.Errorf("churn subscriber setup: %v", err)
		}
		churn = append(churn, rc)
	}
	for i, rc := range churn {
		go func(i int, rc *rawClient) {
			time.Sleep(time.Duration(200+rng.Intn(1500)*(i+1)) * time.Microsecond)
			if rc.ws != nil {
				rc.ws.Close()
			} else {
				rc.c.Close()
			}
		}(i, rc)
	}
	sizes := []int{0, 0, 30, 200, 3000}
	var wg sync.WaitGroup
	for w := range pubs {
		seed := rng.Int63()
		wg.Add(1)
		go func(w int) {
			defer wg.Done()
			r := rand.New(rand.NewSource(seed))
			for i := 1; i <= n; i++ {
				pad := strings.Repeat(string(rune('a'+w)), sizes[r.Intn(len(sizes))])
				if i%9 == 4 {
					// delivered packets whose remaining length sits on the 1/2/3-byte boundaries of the length encoding
					// (127, 128, 16383, 16384): remaining length = 2 + len("stress/x/") + len(payload)
					target := []int{127, 128, 16383, 16384, 129, 16385}[(i/9+w)%6]
					head := fmt.Sprintf("w%d|%d|", w+1, i)
					if n := target - 2 - len("stress/x/") - len(head); n >= 0 {
						pad = strings.Repeat(string(rune('a'+w)), n)
					}
				}
				pubs[w].write(rawPublish(topic, []byte(fmt.Sprintf("w%d|%d|%s", w+1, i, pad))))
				if r.Intn(8) == 0 {
					time.Sleep(time.Duration(r.Intn(60)) * time.Microsecond)
				}
			}
		}(w)
	}
	wg.Wait()
	// a publisher's PINGRESP follows the handling of all its publishes (the fan-out wrote to every subscriber's queue)
	for _, p := range pubs {
		if err := p.waitPong(2, 20*time.Second); err != nil {
			return nil, fmt.Errorf("publisher barrier: %v", err)
		}
	}
	var out []*core.Trace
	for si, s := range subs {
		if err := s.waitPong(2, 20*time.Second); err != nil {
			// bytes that never reach a packet boundary are a framing failure of the broker, not of the harness: report them
			pk, _ := s.packets()
			out = append(out, streamTrace(fmt.Sprintf("%s-s%d", label, si), rate, writers, n, pk, true))
			continue
		}
		pk, _ := s.packets()
		concurrent := false
		if s.ws != nil {
			s.ws.mu.Lock()
			concurrent = s.ws.concurrent
			s.ws.mu.Unlock()
		}
		out = append(out, streamTrace(fmt.Sprintf("%s-s%d", label, si), rate, writers, n, pk, concurrent))
	}
	return out, nil
}

// rawPublish encodes a QoS 0 PUBLISH without the repository's encoder (the concurrent publishers of the harness must
// not depend on the code under test being safe for concurrent use).
func rawPublish(topic, payload []byte) []byte {
	n := 2 + len(topic) + len(payload)
	out := []byte{0x30}
	for {
		d := byte(n % 128)
		n /= 128
		if n > 0 {
			d |= 0x80
		}
		out = append(out, d)
		if n == 0 {
			break
		}
	}
	out = append(out, byte(len(topic)>>8), byte(len(topic)))
	out = append(out, topic...)
	return append(out, payload...)
}

// streamTrace decodes PUBLISH packets (own parser: topic length, topic, payload "w<k>|<i>|<pad>") into [writer, index];
// anything that is not a well-formed expected packet becomes [writer or "?", -1].
func streamTrace(label string, rate int, writers []string, n int, pk [][]byte, torn bool) *core.Trace {
	stream := [][]any{}
	for _, p := range pk {
		switch p[0] & 0xF0 {
		case 0xD0, 0x90, 0x20: // PINGRESP, SUBACK, CONNACK
			continue
		case 0x30:
			i := 1
			for p[i]&0x80 != 0 {
				i++
			}
			body := p[i+1:]
			if len(body) < 2 || 2+int(body[0])<<8+int(body[1]) > len(body) {
				stream = append(stream, []any{"?", -1})
				continue
			}
			tl := int(body[0])<<8 + int(body[1])
			if string(body[2:2+tl]) != "stress/x/" {
				stream = append(stream, []any{"?", -1})
				continue
			}
			f := bytes.SplitN(body[2+tl:], []byte("|"), 3)
			idx := -1
			w := "?"
			if len(f) == 3 {
				w = string(f[0])
				if v, err := strconv.Atoi(string(f[1])); err == nil && v >= 1 && len(f[2]) == lenOfPad(f[2], w) {
					idx = v
				}
			}
			stream = append(stream, []any{w, idx})
		default:
			stream = append(stream, []any{"?", -1})
		}
	}
	if torn {
		stream = append(stream, []any{"?", -1})
	}
	tr := &core.Trace{Label: label}
	tr.Events = append(tr.Events, core.Ev(map[string]any{"e": "stream", "rate": rate, "writers": writers, "n": n, "stream": stream}))
	return tr
}

// lenOfPad returns len(pad) if the padding consists of the writer's own letter only (a payload mixed from two packets
// does not), -1 otherwise.
func lenOfPad(pad []byte, w string) int {
	if len(w) < 2 {
		return -1
	}
	k, err := strconv.Atoi(w[1:])
	if err != nil {
		return -1
	}
	for _, c := range pad {
		if c != byte('a'+k-1) {
			return -1
		}
	}
	return len(pad)
}
