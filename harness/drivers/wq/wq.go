// Package wq binds spec/WriteQueue.tla to the real listener.Conn write path by forcing TLC-generated schedules
// through the verif.At gates (property C10, and the write half of C17).
package wq

import (
	"encoding/json"
	"fmt"
	"math/rand"
	"net"
	"strings"
	"sync"
	"time"

	"github.com/emitter-io/emitter/internal/network/listener"
	"github.com/emitter-io/emitter/verif/core"
	"github.com/emitter-io/emitter/verif/sched"
	"github.com/emitter-io/emitter/verif/tlc"
)

// fakeSocket records every Write call atomically (a copy of the bytes as they are at the time of the call).
type fakeSocket struct {
	mu     sync.Mutex
	writes [][]byte
}

func (f *fakeSocket) Write(p []byte) (int, error) {
	f.mu.Lock()
	f.writes = append(f.writes, append([]byte{}, p...))
	f.mu.Unlock()
	return len(p), nil
}
func (f *fakeSocket) Read(p []byte) (int, error)         { select {} }
func (f *fakeSocket) Close() error                       { return nil }
func (f *fakeSocket) LocalAddr() net.Addr                { return &net.TCPAddr{} }
func (f *fakeSocket) RemoteAddr() net.Addr               { return &net.TCPAddr{} }
func (f *fakeSocket) SetDeadline(t time.Time) error      { return nil }
func (f *fakeSocket) SetReadDeadline(t time.Time) error  { return nil }
func (f *fakeSocket) SetWriteDeadline(t time.Time) error { return nil }

// packet <<w, i>> on the wire: magic 0xF0+w, i, 3-byte length, then `length` filler bytes (value i).
func encodePacket(w, i, size int) []byte {
	b := []byte{byte(0xF0 + w), byte(i), byte(size >> 16), byte(size >> 8), byte(size)}
	for k := 0; k < size; k++ {
		b = append(b, byte(i))
	}
	return b
}

// decode splits one socket write into packets; anything malformed becomes [w, -1].
func decode(b []byte, writers []string) [][]any {
	out := [][]any{}
	for len(b) > 0 {
		if len(b) < 5 || b[0] < 0xF0 || int(b[0]-0xF0) >= len(writers) {
			return append(out, []any{"?", -1})
		}
		w, i, n := writers[b[0]-0xF0], int(b[1]), int(b[2])<<16|int(b[3])<<8|int(b[4])
		if len(b) < 5+n {
			return append(out, []any{w, -1})
		}
		for _, x := range b[5 : 5+n] {
			if x != byte(i) {
				return append(out, []any{w, -1})
			}
		}
		out = append(out, []any{w, i})
		b = b[5+n:]
	}
	return out
}

var gatePC = map[string]string{
	"conn.write.limited": "limited", "conn.write.unlimited": "unlimited", "conn.write.nonempty": "nonempty", "conn.write.enqueued": "enqueued",
	"conn.write.direct": "direct", "conn.flush.checked": "checked", "conn.flush.locked": "locked", "conn.flush.written": "written", "conn.flush.done": "done",
}

type step struct {
	N   string `json:"n"`
	T   string `json:"t"`
	Lim bool   `json:"lim"`
}

const stepTimeout = 3 * time.Second

// Replay forces one schedule onto a real listener.Conn.
func Replay(walk []json.RawMessage, writers, flushers []string, npackets, nrounds int, rng *rand.Rand, label string) (*core.Trace, error) {
	sock := &fakeSocket{}
	conn := listener.VerifNewConn(sock, 60, false)
	defer conn.Close()
	s := sched.New(conn)
	defer s.Close()
	sizes := []int{3, 3, 200, 5000, 70000}
	done := map[string]int{}
	for _, n := range append(append([]string{}, writers...), flushers...) {
		s.Spawn(n)
	}
	widx := map[string]int{}
	for i, w := range writers {
		widx[w] = i
	}
	tr := &core.Trace{Label: label}
	tr.Events = append(tr.Events, core.Ev(map[string]any{"e": "reset"}))
	last := map[string]string{}
	for _, raw := range walk {
		var st step
		if err := json.Unmarshal(raw, &st); err != nil {
			return nil, err
		}
		th := s.Threads[st.T]
		if th == nil {
			return nil, fmt.Errorf("unknown thread %q", st.T)
		}
		var ev sched.Event
		var ok bool
		if !th.Parked() {
			_, isWriter := widx[st.T]
			quota := nrounds
			if isWriter {
				quota = npackets
			}
			if done[st.T] >= quota {
				// the real thread has returned from more calls than the model thinks: the divergence is in an earlier event
				tr.Events = append(tr.Events, core.Ev(map[string]any{"e": "diverged", "why": "schedule starts a call on thread " + st.T + " which has already finished its calls"}))
				return tr, nil
			}
			if isWriter {
				conn.VerifSetLimited(st.Lim)
				p := encodePacket(widx[st.T], done[st.T]+1, sizes[rng.Intn(len(sizes))])
				ev, ok = th.Start(func() { conn.Write(p) }, stepTimeout)
			} else {
				ev, ok = th.Start(func() { conn.Flush() }, stepTimeout)
			}
		} else {
			ev, ok = th.Resume(stepTimeout)
		}
		at := "blocked"
		if ok {
			if ev.Gate == "" {
				done[st.T]++
				at = "idle"
				quota := nrounds
				if _, isWriter := widx[st.T]; isWriter {
					quota = npackets
				}
				if done[st.T] >= quota {
					at = "end"
				}
			} else if pc, known := gatePC[ev.Gate]; known {
				at = pc
			} else {
				at = ev.Gate
			}
		}
		sock.mu.Lock()
		sk := [][][]any{}
		for _, w := range sock.writes {
			sk = append(sk, decode(w, writers))
		}
		sock.mu.Unlock()
		last[st.T] = at
		tr.Events = append(tr.Events, core.Ev(map[string]any{"e": "step", "t": st.T, "lim": st.Lim, "at": at, "sock": sk}))
		if !ok {
			break // a thread that does not come back: the rest of the schedule cannot be forced
		}
	}
	// mutual-exclusion probe: while one thread sits between taking the flush lock and "done", a thread whose next
	// step needs the queue lock must NOT be able to make that step (the model has it disabled).
	var holder, waiter *sched.Thread
	for _, th := range s.Threads {
		switch last[th.Name] {
		case "locked", "written":
			holder = th
		case "limited", "unlimited", "nonempty", "checked":
			waiter = th
		}
	}
	if holder != nil && waiter != nil {
		if ev, came := waiter.Resume(60 * time.Millisecond); came {
			tr.Events = append(tr.Events, core.Ev(map[string]any{"e": "exclusion-broken", "holder": holder.Name, "holder_at": last[holder.Name],
				"intruder": waiter.Name, "intruder_from": last[waiter.Name], "intruder_reached": ev.Gate}))
		}
	}
	return tr, nil
}

func set(xs []string) string {
	q := make([]string, len(xs))
	for i, x := range xs {
		q[i] = fmt.Sprintf("%q", x)
	}
	return "{" + strings.Join(q, ",") + "}"
}

// Config of one exploration.
type Config struct {
	Writers, Flushers []string
	NPackets, NRounds int
}

func (k Config) cfg(gen string, view bool) string {
	s := fmt.Sprintf("CONSTANTS\n Writers = %s\n Flushers = %s\n NPackets = %d\n NRounds = %d\n Gen = %q\nINIT MCInit\nNEXT MCNext\nINVARIANTS PerWriterOrder NoDuplicates NothingLost Dump\n",
		set(k.Writers), set(k.Flushers), k.NPackets, k.NRounds, gen)
	if view {
		s += "VIEW View\n"
	}
	return s
}

func (k Config) traceCfg() string {
	return fmt.Sprintf("CONSTANTS\n Writers = %s\n Flushers = %s\n NPackets = %d\n NRounds = %d\nINIT TraceInit\nNEXT TraceNext\nCONSTRAINT MarkC\nINVARIANT TraceInv\nPOSTCONDITION AllConsumed\nCHECK_DEADLOCK FALSE\n",
		set(k.Writers), set(k.Flushers), k.NPackets, k.NRounds)
}

// Explore model-checks a configuration, generates schedules (all edges of the graph when small, simulated otherwise),
// forces them on the real object and validates the traces. Returns the number of non-trivial schedules.
func Explore(c *core.Ctx, k Config, edges bool, num, depth int, rng *rand.Rand, what string) int64 {
	c.ModelCheck("MC_WriteQueue", k.cfg("none", true), tlc.Opts{})
	var walks [][]json.RawMessage
	if edges {
		g := core.NewGraph()
		c.ModelCheck("MC_WriteQueue", k.cfg("edges", true), tlc.Opts{OnTag: func(tag, js string) {
			if tag == "EDGE" {
				if err := g.AddJSON(js); err != nil {
					core.Fatalf("EDGE: %v", err)
				}
			}
		}})
		var init string
		for f := range g.Out {
			if strings.Contains(f, `"sock":[]`) && strings.Contains(f, `"queue":[]`) && !strings.Contains(f, `"limited"`) && !strings.Contains(f, `"unlimited"`) && strings.Count(f, `"idle"`) == len(k.Writers)+len(k.Flushers) && !strings.Contains(f, `:1`) && !strings.Contains(f, `:2`) {
				init = f
			}
		}
		w, covered, unreach := g.Walks(init, 80, rng, 1)
		if init == "" || unreach > 0 || covered == 0 {
			core.Fatalf("write-queue graph: init %q, %d edges unreachable, %d covered", init, unreach, covered)
		}
		c.Add("edges_exported", int64(g.Edges))
		c.Add("edges_replayed", int64(covered))
		walks = w
	} else {
		var lines []string
		r, err := tlc.Run(tlc.Opts{SpecDir: core.SpecDir(), Module: "MC_WriteQueue", Cfg: k.cfg("sim", false), Workers: 1, SimNum: num, SimDepth: depth, Seed: c.Seed,
			OnTag: func(tag, js string) {
				if tag == "BEH" {
					lines = append(lines, strings.TrimSuffix(strings.TrimSpace(js), "]"))
				}
			}})
		if err != nil || r.Violated != "" || r.ErrText != "" || r.TimedOut {
			core.Fatalf("write-queue simulation failed: %v %s", err, r.Brief())
		}
		walks = append(walks, core.Behaviours(lines, num, rng)...)
		c.Add("simulated_schedules", int64(len(walks)))
	}
	var traces []*core.Trace
	var nontrivial int64
	for i, w := range walks {
		t, err := Replay(w, k.Writers, k.Flushers, k.NPackets, k.NRounds, rng, fmt.Sprintf("wq-%dw-%d", len(k.Writers), i))
		if err != nil {
			core.Fatalf("replay: %v", err)
		}
		traces = append(traces, t)
		c.Add("evaluations", int64(len(t.Events)-1))
		s := ""
		for _, e := range t.Events {
			s += string(e)
		}
		if strings.Contains(s, `"at":"written"`) && strings.Contains(s, `"at":"direct"`) {
			nontrivial++
		}
	}
	if len(traces) > 0 {
		t := traces[rng.Intn(len(traces))]
		var head []json.RawMessage
		for i, e := range t.Events {
			if i < 10 {
				head = append(head, e)
			}
		}
		c.Sample(map[string]any{"label": t.Label, "events_head": head})
	}
	rej := c.ValidateTraces(traces, core.ValidateOpts{Module: "WriteQueue_Trace", Cfg: k.traceCfg(), ChunkSize: 3000})
	for _, r := range rej {
		if r.Index < len(r.Trace.Events) && strings.Contains(string(r.Trace.Events[r.Index]), `"e":"diverged"`) {
			core.Fatalf("replay bookkeeping diverged although every recorded step conforms to the model: %s", r.Trace.Events[r.Index])
		}
	}
	c.ReportRejections(rej, what)
	return nontrivial
}

// slowSocket copies the bytes only after a short pause: a caller that lets go of the buffer too early is exposed.
type slowSocket struct {
	fakeSocket
	pause time.Duration
}

func (f *slowSocket) Write(p []byte) (int, error) {
	f.mu.Lock()
	defer f.mu.Unlock()
	if f.pause > 0 {
		time.Sleep(f.pause)
	}
	f.writes = append(f.writes, append([]byte{}, p...))
	return len(p), nil
}

// Stress runs really concurrent writers and a flusher on a real listener.Conn at a given write rate and returns the
// decoded stream as a one-event trace.
func Stress(rate, nwriters, npackets int, rng *rand.Rand, label string) *core.Trace {
	sock := &slowSocket{pause: 20 * time.Microsecond}
	conn := listener.VerifNewConn(sock, rate, false)
	writers := []string{}
	for i := 0; i < nwriters; i++ {
		writers = append(writers, fmt.Sprintf("w%d", i+1))
	}
	stop := make(chan struct{})
	var fl sync.WaitGroup
	fl.Add(1)
	go func() {
		defer fl.Done()
		for {
			select {
			case <-stop:
				return
			default:
				conn.Flush()
				time.Sleep(30 * time.Microsecond)
			}
		}
	}()
	var wg sync.WaitGroup
	sizes := []int{3, 3, 40, 300, 5000}
	for w := 0; w < nwriters; w++ {
		seed := rng.Int63()
		wg.Add(1)
		go func(w int) {
			defer wg.Done()
			r := rand.New(rand.NewSource(seed))
			for i := 1; i <= npackets; i++ {
				conn.Write(encodePacket(w, i, sizes[r.Intn(len(sizes))]))
				if r.Intn(4) == 0 {
					time.Sleep(time.Duration(r.Intn(40)) * time.Microsecond)
				}
			}
		}(w)
	}
	wg.Wait()
	close(stop)
	fl.Wait()
	conn.Flush()
	conn.Close()
	var all []byte
	sock.mu.Lock()
	for _, w := range sock.writes {
		all = append(all, w...)
	}
	sock.mu.Unlock()
	tr := &core.Trace{Label: label}
	tr.Events = append(tr.Events, core.Ev(map[string]any{"e": "stream", "rate": rate, "writers": writers, "n": npackets, "stream": decode(all, writers)}))
	return tr
}

// RunC10 is the C10 check.
func RunC10(c *core.Ctx) {
	c.Level = "model_checking"
	rng := rand.New(rand.NewSource(c.Seed))
	num := 250
	k := Config{Writers: []string{"w1", "w2"}, Flushers: []string{"t"}, NPackets: 2, NRounds: 2}
	if !c.Quick() {
		num = 3000
	}
	nt := Explore(c, k, false, num, 60, rng, "the socket stream of listener.Conn is not the framed, per-writer ordered, loss-free stream the write-queue model prescribes for this schedule")
	if !c.Quick() {
		nt += Explore(c, Config{Writers: []string{"w1", "w2"}, Flushers: []string{"t"}, NPackets: 3, NRounds: 3}, false, num, 90, rng, "write-queue schedule (3 packets per writer)")
	}
	// really concurrent runs at the three flush-rate regimes; the stream predicates are evaluated by TLC
	runs := 12
	if !c.Quick() {
		runs = 120
	}
	var stress []*core.Trace
	for i := 0; i < runs; i++ {
		rate := []int{1, 60, 1000}[i%3]
		stress = append(stress, Stress(rate, 3, 120, rng, fmt.Sprintf("stress-rate%d-%d", rate, i)))
	}
	// the same through a whole broker: concurrent publishers fan out to subscribers behind real listener.Conns
	bruns := 8
	if !c.Quick() {
		bruns = 60
	}
	for i := 0; i < bruns; i++ {
		rate := []int{1, 60, 1000, -1}[i%4] // -1: the websocket transport
		ts, err := BrokerStress(rate, 6, 3, 150, rng, fmt.Sprintf("broker-rate%d-%d", rate, i))
		if err != nil {
			core.Fatalf("broker stress: %v", err)
		}
		stress = append(stress, ts...)
		c.Add("broker_stress_runs", 1)
	}
	c.Add("stress_runs", int64(len(stress)))
	rej := c.ValidateTraces(stress, core.ValidateOpts{Module: "WriteQueue_Stress", Cfg: "INIT TraceInit\nNEXT TraceNext\nCONSTRAINT MarkC\nPOSTCONDITION AllConsumed\nCHECK_DEADLOCK FALSE\n", ChunkSize: 4})
	c.ReportRejections(rej, "concurrent writers + flusher on listener.Conn: the socket stream has a torn, lost, duplicated or reordered packet")
	c.Set("distinct_nontrivial", nt)
	c.Set("rule", "TLC-simulated interleavings of 2 writers x 2-3 packets and the timer flush, over every limiter outcome, at the granularity of the verif.At gates in Conn.Write / Conn.Flush (after Limit(), after Len(), after enqueue, before the direct write, after the flush lock, after the socket write, after Reset); each schedule is forced onto a real listener.Conn whose socket is a recording fake; packet sizes 3..70000 bytes; non-trivial = a schedule containing both a flush and a direct write")
	c.Assume = append(c.Assume, "one Write call on the underlying socket is atomic w.r.t. other Write calls (true for net.TCPConn; the fake socket implements exactly that)",
		"the WebSocket transport: sequentially in C17, concurrently in the whole-broker stage over a fake frame sink that allows one writer at a time (as gorilla does); here: the concurrent write queue in isolation (forced schedules, stress) and behind a whole broker with concurrent publishers (stress)")
	c.Finish()
}

// Bulk: one writer, more queued bytes than any configured-size assumption survives: `queued` rate-limited writes of
// `size` bytes each pile up in the write queue (no flush in between), then the limiter lets one write through (which
// flushes the queue), then the timer flushes once more. Everything must reach the socket, in order, once.
func Bulk(queued, size int, label string) *core.Trace {
	sock := &fakeSocket{}
	conn := listener.VerifNewConn(sock, 60, false)
	writers := []string{"w1"}
	n := 0
	conn.VerifSetLimited(true)
	for i := 0; i < queued; i++ {
		n++
		conn.Write(encodePacket(0, n, size))
	}
	conn.VerifSetLimited(false)
	n++
	conn.Write(encodePacket(0, n, size)) // not limited, queue not empty: enqueue + flush
	conn.VerifSetLimited(true)
	n++
	conn.Write(encodePacket(0, n, 100))
	conn.Flush() // the timer
	conn.Close()
	var all []byte
	sock.mu.Lock()
	for _, w := range sock.writes {
		all = append(all, w...)
	}
	sock.mu.Unlock()
	tr := &core.Trace{Label: label}
	tr.Events = append(tr.Events, core.Ev(map[string]any{"e": "stream", "rate": 60, "writers": writers, "n": n, "stream": decode(all, writers), "queued_bytes": queued * (size + 5)}))
	return tr
}
