package session

import (
	"encoding/hex"
	"encoding/json"
	"fmt"
	"math/rand"
	"os"
	"os/exec"
	"runtime/debug"
	"sort"
	"strings"
	"sync"
	"syscall"
	"time"

	"github.com/emitter-io/emitter/internal/event"
	"github.com/emitter-io/emitter/internal/message"
	"github.com/emitter-io/emitter/internal/security"
	"github.com/emitter-io/emitter/verif/bk"
	"github.com/emitter-io/emitter/verif/core"
	"github.com/emitter-io/emitter/verif/tlc"
	"github.com/golang/snappy"
)

var corpusOnce sync.Once
var stateCorpus, frameCorpus [][]byte

// buildCorpus derives broken cluster payloads from valid ones: truncation at every offset of the uncompressed
// encoding, every byte forced to 0xFF (inflated length / count fields) or 0x00, bad compression, semantically
// invalid but well-encoded states (a subscription key shorter than its fixed header).
func buildCorpus() {
	st := event.NewState("")
	st.Add(&event.Subscription{Peer: 7, Conn: security.ID(9), Ssid: message.Ssid{1, 2}, Channel: []byte("a/")})
	b := event.Ban("banned-key")
	st.Add(&b)
	st.Del(&b)
	st.Add(&event.Connection{Peer: 7, Conn: security.ID(9), Username: []byte("u")})
	valid := st.Encode()[0]
	raw, _ := snappy.Decode(nil, valid)
	mut := func(raw []byte) (out [][]byte) {
		for i := 0; i <= len(raw); i++ {
			out = append(out, snappy.Encode(nil, raw[:i]))
			if i < len(raw) {
				for _, v := range []byte{0xFF, 0x00, 0x7F} {
					m := append([]byte{}, raw...)
					m[i] = v
					out = append(out, snappy.Encode(nil, m))
				}
			}
		}
		return
	}
	stateCorpus = append(stateCorpus, []byte{}, []byte{0}, []byte("not snappy at all"), valid[:len(valid)/2])
	short := event.NewState("")
	short.VerifSubset(event.VerifTypeSub).Add("abc", []byte("x")) // a subscription key of 3 bytes
	stateCorpus = append(stateCorpus, short.Encode()[0])
	short2 := event.NewState("")
	short2.VerifSubset(event.VerifTypeConn).Add("", nil)
	stateCorpus = append(stateCorpus, short2.Encode()[0])
	stateCorpus = append(stateCorpus, mut(raw)...)
	fr := message.Frame{*message.New(message.Ssid{1, 2}, []byte("a/"), []byte("payload")), *message.New(message.Ssid{1, 3}, []byte("b/"), []byte("p2"))}
	fvalid := fr.Encode()
	fraw, _ := snappy.Decode(nil, fvalid)
	frameCorpus = append(frameCorpus, []byte{}, []byte{0}, []byte("garbage"), fvalid[:len(fvalid)/2])
	frameCorpus = append(frameCorpus, mut(fraw)...)
}

// clusterHostile hands one broken payload to a cluster entry point of the running broker; a panic is reported (on
// the real gossip goroutine nothing would recover it).
func clusterHostile(b *bk.Broker, fn string, idx int, ev map[string]any) (panicked bool) {
	corpusOnce.Do(buildCorpus)
	var payload []byte
	if fn == "OnGossipUnicast" || fn == "DecodeFrame" || fn == "DecodeMessage" {
		payload = frameCorpus[idx%len(frameCorpus)]
	} else {
		payload = stateCorpus[idx%len(stateCorpus)]
	}
	ev["payload_hex"] = hex.EncodeToString(payload)
	defer func() {
		if r := recover(); r != nil {
			panicked = true
			ev["panic_value"] = fmt.Sprint(r)
		}
	}()
	sw := b.Svc.VerifCluster()
	switch fn {
	case "OnGossip":
		sw.OnGossip(payload)
	case "OnGossipBroadcast":
		sw.OnGossipBroadcast(12345, payload)
	case "OnGossipUnicast":
		sw.OnGossipUnicast(12345, payload)
	case "DecodeState":
		if s, err := event.DecodeState(payload); err == nil && s != nil {
			// a state that decoded must be usable: merging and iterating it is what the swarm does next
			event.NewState("").Merge(s)
			s.Subscriptions(func(*event.Subscription, event.Value) {})
		}
	case "DecodeFrame":
		message.DecodeFrame(payload)
	case "DecodeMessage":
		message.DecodeMessage(payload)
	}
	return false
}

type childJob struct {
	Mode    string            `json:"mode"`
	Lic     int               `json:"lic"`
	Storage string            `json:"storage"`
	Label   string            `json:"label"`
	Seed    int64             `json:"seed"`
	Walk    []json.RawMessage `json:"walk"`
}

// ReplayChild is the entry point of the helper process: it replays the jobs of a file on in-process brokers under an
// address-space ceiling and streams every event to the output file, so that the parent sees how far it got if the
// process dies.   _replaychild <jobs.json> <out.ndjson> <ceiling MiB>
func ReplayChild(args []string) {
	var mib uint64
	fmt.Sscan(args[2], &mib)
	if mib > 0 {
		lim := syscall.Rlimit{Cur: mib << 20, Max: mib << 20}
		syscall.Setrlimit(syscall.RLIMIT_AS, &lim)
	}
	data, err := os.ReadFile(args[0])
	if err != nil {
		os.Exit(4)
	}
	var jobs []childJob
	if err := json.Unmarshal(data, &jobs); err != nil {
		os.Exit(4)
	}
	out, err := os.OpenFile(args[1], os.O_CREATE|os.O_WRONLY|os.O_APPEND, 0o644)
	if err != nil {
		os.Exit(4)
	}
	var mu sync.Mutex
	write := func(m map[string]any) {
		b, _ := json.Marshal(m)
		mu.Lock()
		out.Write(append(b, '\n'))
		mu.Unlock()
	}
	EventSink = func(label string, ev []byte) { write(map[string]any{"label": label, "ev": json.RawMessage(ev)}) }
	StepSink = func(label string, raw []byte) { write(map[string]any{"label": label, "begin": json.RawMessage(raw)}) }
	for _, j := range jobs {
		write(map[string]any{"label": j.Label, "start": true})
		_, err := Replay(j.Mode, j.Lic, j.Storage, j.Walk, j.Label, rand.New(rand.NewSource(j.Seed)))
		if err != nil {
			write(map[string]any{"label": j.Label, "error": err.Error()})
		} else {
			write(map[string]any{"label": j.Label, "done": true})
		}
		debug.FreeOSMemory()
	}
	out.Close()
}

// runChildren replays jobs in child processes; a job during which the process died, hung or exceeded its ceiling ends
// with a "broker-died" event.
func runChildren(c *core.Ctx, jobs []childJob, ceilingMiB int) []*core.Trace {
	self, _ := os.Executable()
	byLabel := map[string]*core.Trace{}
	var order []string
	remaining := jobs
	for len(remaining) > 0 {
		dir, err := os.MkdirTemp("", "vhostile-")
		if err != nil {
			core.Fatalf("tempdir: %v", err)
		}
		in, out := dir+"/jobs.json", dir+"/out.ndjson"
		batch := remaining
		if len(batch) > 10 {
			batch = batch[:10]
		}
		b, _ := json.Marshal(batch)
		os.WriteFile(in, b, 0o644)
		cmd := exec.Command(self, "_replaychild", in, out, fmt.Sprint(ceilingMiB))
		var stderr strings.Builder
		cmd.Stderr = &stderr
		done := make(chan error, 1)
		cmd.Start()
		go func() { done <- cmd.Wait() }()
		timedOut := false
		var werr error
		select {
		case werr = <-done:
		case <-time.After(time.Duration(120+12*len(batch)) * time.Second):
			timedOut = true
			cmd.Process.Kill()
			werr = <-done
		}
		data, _ := os.ReadFile(out)
		os.RemoveAll(dir)
		finished := map[string]bool{}
		var current, serving string
		machinery := ""
		for _, line := range strings.Split(string(data), "\n") {
			if line == "" {
				continue
			}
			var m struct {
				Label string          `json:"label"`
				Ev    json.RawMessage `json:"ev"`
				Start bool            `json:"start"`
				Done  bool            `json:"done"`
				Error string          `json:"error"`
				Begin json.RawMessage `json:"begin"`
			}
			if json.Unmarshal([]byte(line), &m) != nil {
				continue
			}
			switch {
			case m.Begin != nil:
				serving = string(m.Begin)
			case m.Start:
				current = m.Label
				byLabel[m.Label] = &core.Trace{Label: m.Label}
				order = append(order, m.Label)
			case m.Ev != nil:
				byLabel[m.Label].Events = append(byLabel[m.Label].Events, []byte(m.Ev))
			case m.Done:
				finished[m.Label] = true
			case m.Error != "":
				finished[m.Label] = true
				if strings.Contains(m.Error, "hang") {
					byLabel[m.Label].Events = append(byLabel[m.Label].Events, core.Ev(map[string]any{"e": "broker-died", "why": m.Error}))
				} else {
					machinery = m.Error
				}
			}
		}
		if machinery != "" {
			core.Fatalf("hostile replay: %s", machinery)
		}
		var next []childJob
		for _, j := range remaining {
			if !finished[j.Label] && j.Label != current {
				next = append(next, j)
			}
		}
		if len(next) == len(remaining) && werr == nil {
			core.Fatalf("replay child made no progress")
		}
		if current != "" && !finished[current] {
			why := fmt.Sprintf("the broker process ended while serving this behaviour: %v", werr)
			if timedOut {
				why = "the broker process hung (watchdog)"
			}
			tail := stderr.String()
			if len(tail) > 1500 {
				tail = tail[:700] + " ... " + tail[len(tail)-700:]
			}
			byLabel[current].Events = append(byLabel[current].Events, core.Ev(map[string]any{"e": "broker-died", "why": why, "serving": serving, "stderr": tail}))
			c.Add("broker_process_deaths", 1)
		} else if werr != nil && len(next) == len(remaining) {
			core.Fatalf("replay child failed before its first job: %v\n%s", werr, stderr.String())
		}
		remaining = next
	}
	var out []*core.Trace
	sort.Strings(order)
	for _, l := range order {
		out = append(out, byLabel[l])
	}
	return out
}

// RunC09 is the C09 check.
func RunC09(c *core.Ctx) {
	c.Level = "exploration"
	rng := rand.New(rand.NewSource(c.Seed))
	num, depth := 30, 16
	if !c.Quick() {
		num, depth = 800, 22
	}
	var traces []*core.Trace
	var jobs []childJob
	for _, mode := range []string{"emitter", "mqtt"} {
		c.ModelCheck("MC_Session", mcCfg(mode, "hostile", `{"c1","c2"}`, 4, 2, "none", false), tlc.Opts{})
		for i, w := range Simulate(c, mode, "hostile", num, depth, rng) {
			jobs = append(jobs, childJob{Mode: mode, Lic: 1 + i%3, Storage: "inmemory", Label: fmt.Sprintf("hostile-%s-%04d", mode, i), Seed: c.Seed*100000 + int64(i), Walk: w})
		}
	}
	// every hostile class at least once on its own, in a fixed context (a canary subscribed and publishing around it)
	classes := []string{"type0", "type15", "oversize", "len5", "strlen", "garbage", "empty-connect", "empty-connack", "empty-publish", "empty-puback", "empty-subscribe",
		"empty-suback", "empty-unsubscribe", "empty-unsuback", "empty-pubrel", "short-connect", "sub-last-huge", "sub-last-max", "history-last-huge", "keygen-illtyped",
		"presence-illtyped", "link-longname", "pub-ttl-huge", "pub-window-extreme", "api-unknown", "ping-flood", "pub-many-options",
		"sub-deep", "sub-plus-deep", "sub-mixed-deep", "sub-many-topics", "sub-long-level", "pub-deep", "presence-plus-deep", "sub-deep-drop", "sub-plus-deep-drop"}
	mk := func(s string) json.RawMessage { return json.RawMessage(s) }
	for i, cls := range classes {
		walk := []json.RawMessage{
			mk(`{"n":"connect","c":"c1","u":"u-c1","will":{"on":false}}`),
			mk(`{"n":"connect","c":"c2","u":"u-c2","will":{"on":true,"k":"kAll","w":["a"],"syn":"ok","retain":false,"p":"will-of-c2"}}`),
			mk(`{"n":"sub","c":"c1","k":"kAll","w":["a"],"syn":"ok","last":0,"win":"none"}`),
			mk(`{"n":"sub","c":"c2","k":"kAll","w":["a","b"],"syn":"ok","last":0,"win":"none"}`),
			mk(`{"n":"pub","c":"c2","k":"kAll","w":["a"],"syn":"ok","me0":false,"ttl":3600,"via":"","retain":false,"qos":1,"p":"before"}`),
			mk(fmt.Sprintf(`{"n":"hostile","c":"c2","cls":%q}`, cls)),
			mk(`{"n":"pub","c":"c1","k":"kAll","w":["a"],"syn":"ok","me0":false,"ttl":-1,"via":"","retain":false,"qos":1,"p":"after"}`),
		}
		jobs = append(jobs, childJob{Mode: "emitter", Lic: 1 + i%3, Storage: "inmemory", Label: fmt.Sprintf("class-%02d-%s", i, cls), Seed: int64(i), Walk: walk})
	}
	// connections that never send CONNECT, in the canary context
	for i, cls := range []string{"nothing", "ping", "disconnect", "cut-connect", "garbage", "sub-first", "pub-first", "will-deep-24", "will-deep-40", "will-long"} {
		walk := []json.RawMessage{
			mk(`{"n":"connect","c":"c1","u":"u-c1","will":{"on":false}}`),
			mk(`{"n":"sub","c":"c1","k":"kAll","w":["a"],"syn":"ok","last":0,"win":"none"}`),
			mk(fmt.Sprintf(`{"n":"stranger","cls":%q}`, cls)),
			mk(`{"n":"pub","c":"c1","k":"kAll","w":["a"],"syn":"ok","me0":false,"ttl":-1,"via":"","retain":false,"qos":1,"p":"after"}`),
		}
		jobs = append(jobs, childJob{Mode: "emitter", Lic: 1 + i%3, Storage: "inmemory", Label: fmt.Sprintf("stranger-%02d-%s", i, cls), Seed: int64(i), Walk: walk})
	}
	corpusOnce.Do(buildCorpus)
	for _, fn := range []string{"OnGossip", "OnGossipBroadcast", "DecodeState", "OnGossipUnicast", "DecodeFrame", "DecodeMessage"} {
		n := len(stateCorpus)
		if strings.Contains(fn, "Unicast") || strings.Contains(fn, "Frame") || strings.Contains(fn, "Message") {
			n = len(frameCorpus)
		}
		step := 1 // (the whole corpus in both tiers: a third of it per seed let a panic hide behind the seed)
		walk := []json.RawMessage{mk(`{"n":"connect","c":"c1","u":"u-c1","will":{"on":false}}`), mk(`{"n":"sub","c":"c1","k":"kAll","w":["a"],"syn":"ok","last":0,"win":"none"}`)}
		for i := int(c.Seed) % step; i < n; i += step {
			walk = append(walk, mk(fmt.Sprintf(`{"n":"cluster","fn":%q,"idx":%d}`, fn, i)))
		}
		walk = append(walk, mk(`{"n":"pub","c":"c1","k":"kAll","w":["a"],"syn":"ok","me0":false,"ttl":-1,"via":"","retain":false,"qos":1,"p":"after"}`))
		jobs = append(jobs, childJob{Mode: "emitter", Lic: 1, Storage: "inmemory", Label: "corpus-" + fn, Seed: 1, Walk: walk})
	}
	traces = runChildren(c, jobs, 6144)
	var nontrivial int64
	byMode := map[string][]*core.Trace{}
	for _, t := range traces {
		c.Add("evaluations", int64(len(t.Events)))
		mode := "emitter"
		if strings.Contains(t.Label, "-mqtt-") {
			mode = "mqtt"
		}
		byMode[mode] = append(byMode[mode], t)
		for _, e := range t.Events {
			if strings.Contains(string(e), `"e":"hostile"`) || strings.Contains(string(e), `"e":"cluster"`) || strings.Contains(string(e), `"e":"stranger"`) {
				nontrivial++
				break
			}
		}
	}
	if len(traces) > 0 {
		c.Sample(map[string]any{"label": traces[len(traces)/2].Label, "events_head": headEvents(traces[len(traces)/2], 7)})
	}
	known := c.KnownTags()
	for mode, ts := range byMode {
		rej := c.ValidateTraces(ts, core.ValidateOpts{Module: "Session_Trace", Cfg: traceCfg(mode), ChunkSize: 1500})
		var rest []core.Rejection
		for _, r := range rej {
			ev := ""
			if r.Index < len(r.Trace.Events) {
				ev = string(r.Trace.Events[r.Index])
			}
			prev := ""
			if r.Index > 0 {
				prev = string(r.Trace.Events[r.Index-1])
			}
			if strings.Contains(ev, `"e":"broker-died"`) && lastHostile(r.Trace) == "" && !strings.Contains(ev, "hostile") && !strings.Contains(ev, "stranger") && !strings.Contains(strings.Join(evStrings(r.Trace), ""), `"e":"stranger"`) && !strings.Contains(strings.Join(evStrings(r.Trace), ""), `"e":"cluster"`) {
				core.Fatalf("the broker child process died before any hostile step of %s: %s", r.Trace.Label, ev[:min(len(ev), 600)])
			}
			tag := classify(ev, prev, r.Trace)
			if _, ok := known[tag]; ok && tag != "" {
				c.Known(tag)
				continue
			}
			rest = append(rest, r)
		}
		c.ReportRejections(rest, "hostile or malformed input took the broker down, hung it, or disturbed other connections ("+mode+" matcher)")
	}
	c.Set("distinct_nontrivial", nontrivial)
	c.Set("rule", "TLC-simulated sessions in which hostile actions (16 connection-closing malformed-packet classes, 11 surviving extreme-parameter request classes, broken cluster payloads) are interleaved with ordinary requests of other clients, replayed against brokers running in a child process under a 6 GiB address-space ceiling and a watchdog; plus every class once in a fixed canary context and the payload corpus (truncation at every offset, every byte forced to 0xFF/0x00/0x7F, bad compression, short keys) through OnGossip / OnGossipBroadcast / OnGossipUnicast / DecodeState / DecodeFrame / DecodeMessage; non-trivial = behaviours containing at least one hostile step")
	c.Assume = append(c.Assume, "structural classes and systematic mutations of valid encodings, not arbitrary random byte strings (generating those is fuzzing, outside this family)",
		"memory out of proportion = the process exceeds a 6 GiB address-space ceiling; a panic inside a cluster entry point counts as process exit (mesh does not recover)")
	c.Finish()
}

// classify maps a rejected hostile event to the tag of a listed finding.
func classify(ev, prev string, t *core.Trace) string {
	if strings.Contains(ev, `"e":"cluster"`) && strings.Contains(ev, `"panic":true`) {
		return "gossip_payload_panics"
	}
	if strings.Contains(ev, `"e":"broker-died"`) && (strings.Contains(t.Label, "last-huge") || strings.Contains(lastHostile(t), "last-huge")) {
		return "last_sizes_allocation"
	}
	return ""
}

func evStrings(t *core.Trace) []string {
	var out []string
	for _, e := range t.Events {
		out = append(out, string(e))
	}
	return out
}

func lastHostile(t *core.Trace) string {
	out := ""
	for _, e := range t.Events {
		if strings.Contains(string(e), `"e":"hostile"`) {
			out = string(e)
		}
	}
	return out
}
