package session

// Several brokers behind one Session model (spec/Session.tla with a non-trivial Home map): the brokers' swarms talk
// through the transcribed mesh sender, every step of a behaviour is followed by running gossip and peer frames to
// quiescence, and the cluster as a whole must then behave like the one broker of the specification (C05 at the level
// of client sessions: wildcard filters, several connections behind one route, presence watchers on another broker,
// last wills crossing brokers).

import (
	"bytes"
	"encoding/json"
	"fmt"
	"math/rand"
	"os"
	"sort"
	"strings"
	"sync"
	"sync/atomic"
	"time"

	"github.com/emitter-io/emitter/internal/message"
	"github.com/emitter-io/emitter/internal/security/hash"
	"github.com/emitter-io/emitter/verif/bk"
	"github.com/emitter-io/emitter/verif/core"
	"github.com/emitter-io/emitter/verif/meshsender"
	"github.com/emitter-io/emitter/verif/tlc"
	"github.com/weaveworks/mesh"
)

// fabric is the set of brokers of one replay and the simulated mesh between them.
type fabric struct {
	names   []string // "b1", "b2", ...
	bs      map[string]*bk.Broker
	nodes   map[string]*meshsender.Node
	peers   map[string]mesh.PeerName
	byPeer  map[string]string // peer name string -> broker name
	net     *meshsender.Net
	words   map[uint32]string
	survey  bool
	k       int // depth inflation of the world that uses the fabric (routes are reported in model words)
	pumping int32
	stop    chan struct{}
	done    sync.WaitGroup
}

var fabricSeq int64

// newFabric starts nb brokers of one license and matcher mode. Storage and license are shared settings; every broker
// has its own state directory and node name.
func newFabric(nb int, mode string, licVer int, storage string, surveyed bool) (*fabric, error) {
	return newFabricDir(nb, mode, licVer, storage, surveyed, "")
}

// newFabricDir: dir != "" gives broker i the state directory dir/b<i>, kept when the fabric is closed (restarts).
func newFabricDir(nb int, mode string, licVer int, storage string, surveyed bool, dir string) (*fabric, error) {
	return newFabricWith(nb, mode, licVer, storage, surveyed, dir, false)
}

// newFabricWith: standalone = one broker whose configuration has no cluster section.
func newFabricWith(nb int, mode string, licVer int, storage string, surveyed bool, dir string, standalone bool) (*fabric, error) {
	f := &fabric{bs: map[string]*bk.Broker{}, nodes: map[string]*meshsender.Node{}, peers: map[string]mesh.PeerName{},
		byPeer: map[string]string{}, net: meshsender.NewNet(), words: map[uint32]string{}, survey: surveyed}
	base := atomic.AddInt64(&fabricSeq, 1)
	for i := 1; i <= nb; i++ {
		n := fmt.Sprintf("b%d", i)
		o := bk.Opts{Mode: mode, LicenseVer: licVer, Storage: storage,
			NodeName: fmt.Sprintf("00:00:00:%02x:%02x:%02x", (base>>8)&0xff, base&0xff, i)}
		o.NoCluster = standalone && nb == 1
		if dir != "" {
			o.Dir, o.KeepDir = fmt.Sprintf("%s/b%d", dir, i), true
			os.MkdirAll(o.Dir, 0o755)
		}
		b, err := bk.New(o)
		if err != nil {
			f.close()
			return nil, err
		}
		f.names = append(f.names, n)
		f.bs[n] = b
		if nb > 1 {
			sw := b.Svc.VerifCluster()
			nd := f.net.Add(mesh.PeerName(sw.ID()))
			sw.VerifSetGossip(nd)
			f.nodes[n] = nd
			f.peers[n] = mesh.PeerName(sw.ID())
			f.byPeer[f.peers[n].String()] = n
		}
	}
	for _, w := range []string{"a", "b", "x", "y", "+", "#", "cut", "here"} {
		f.words[hash.OfString(w)] = w
	}
	if nb > 1 {
		if surveyed {
			for _, n := range f.names {
				f.bs[n].Svc.VerifStartSurvey(nb - 1)
			}
		}
		// the surveyors' own subscriptions (announced when the services started) travel first
		f.settle()
	}
	return f, nil
}

func (f *fabric) close() {
	for _, b := range f.bs {
		b.Close()
	}
}

func (f *fabric) multi() bool { return len(f.names) > 1 }

// moveGossip picks and delivers every queued gossip payload once; true if anything moved.
func (f *fabric) moveGossip() bool {
	busy := false
	for _, a := range f.names {
		for _, b := range f.names {
			if a == b {
				continue
			}
			x, y := f.nodes[a], f.nodes[b]
			if g, bc := x.Pending(f.peers[b]); g || bc > 0 {
				x.Pick(f.peers[b], f.peers[a])
				busy = true
			}
			for len(x.Wire[f.peers[b]]) > 0 {
				f.net.Deliver(f.peers[a], f.peers[b], f.bs[b].Svc.VerifCluster())
				busy = true
			}
			_ = y
		}
	}
	return busy
}

// moveFrames flushes the frame queue of every peer object (the 5 ms tickers are stopped: a ticker that has taken a
// queue but not yet sent it would make a step miss its own frames) and hands the recorded unicasts to their
// destinations; true if anything moved.
func (f *fabric) moveFrames() bool {
	busy := false
	for _, a := range f.names {
		sw := f.bs[a].Svc.VerifCluster()
		for _, b := range f.names {
			if a == b {
				continue
			}
			sw.VerifStopPeerTimers(f.peers[b])
			if p := sw.VerifPeer(f.peers[b]); p != nil {
				p.VerifFlush()
			}
		}
		for _, u := range f.nodes[a].TakeUnicasts() {
			dst, ok := f.byPeer[u.Src.String()]
			if !ok {
				continue
			}
			busy = true
			f.bs[dst].Svc.VerifCluster().OnGossipUnicast(f.peers[a], u.Buf)
		}
	}
	return busy
}

// settle runs the cluster to quiescence: presence queues drained, no gossip payload queued or in flight (one periodic
// full-state round included), no peer frame pending.
func (f *fabric) settle() {
	if !f.multi() {
		return
	}
	for round := 0; round < 200; round++ {
		busy := false
		for _, n := range f.names {
			f.bs[n].Svc.VerifPresenceBarrier()
		}
		for f.moveGossip() {
			busy = true
		}
		for f.moveFrames() {
			busy = true
		}
		if !busy {
			if round > 0 {
				return
			}
			// one periodic full-state exchange (mesh sends the complete state to a neighbour subset every 30 s): whatever
			// the deltas left out travels now
			for _, n := range f.names {
				f.nodes[n].GossipNeighbourSubset(f.bs[n].Svc.VerifCluster().Gossip())
			}
		}
	}
}

// startPump moves peer frames in the background while a request is being served: a survey (presence status, history)
// blocks its request until the peers have answered.
func (f *fabric) startPump() {
	if !f.multi() || !f.survey {
		return
	}
	f.stop = make(chan struct{})
	f.done.Add(1)
	go func() {
		defer f.done.Done()
		for {
			select {
			case <-f.stop:
				return
			default:
			}
			if !f.moveFrames() {
				time.Sleep(200 * time.Microsecond)
			}
		}
	}()
}

func (f *fabric) stopPump() {
	if f.stop != nil {
		close(f.stop)
		f.done.Wait()
		f.stop = nil
	}
}

// routes reads, for every broker, the remote entries of its real trie as [broker, ssid words] pairs (the surveyors'
// own query subscriptions are not part of the model).
func (f *fabric) routes(contract uint32) map[string][][]any {
	out := map[string][][]any{}
	for _, n := range f.names {
		rs := [][]any{}
		for _, e := range f.bs[n].Svc.VerifTrie().VerifEntries() {
			if e.Type != message.SubscriberRemote {
				continue
			}
			if len(e.Ssid) >= 2 && e.Ssid[0] == 0 && e.Ssid[1] == message.Query[1] {
				continue
			}
			rs = append(rs, []any{f.byPeer[e.ID], f.ssidWords(e.Ssid, contract)})
		}
		sort.Slice(rs, func(i, j int) bool { return fmt.Sprint(rs[i]) < fmt.Sprint(rs[j]) })
		out[n] = rs
	}
	return out
}

func (f *fabric) ssidWords(s message.Ssid, contract uint32) []string {
	var w []string
	i := 0
	if len(s) >= 2 && s[0] == 0 {
		w = append(w, "sys", "presence")
		if s[1] != 3869262148 {
			w[1] = fmt.Sprintf("?%d", s[1])
		}
		i = 2
	}
	step := 1
	if f.k > 1 {
		step = f.k
	}
	first := true
	for ; i < len(s); i += step {
		if first && (s[i] == contract) {
			// the contract level is not inflated
			w = append(w, "ct")
			i -= step - 1
			first = false
			continue
		}
		first = false
		if s[i] == 4285801373 { // '#': never inflated
			w = append(w, "#")
			i -= step - 1
			continue
		}
		switch {
		case s[i] == contract && (i == 0 || i == 2 && len(w) == 2):
			w = append(w, "ct")
		case f.words[s[i]] != "":
			w = append(w, f.words[s[i]])
		default:
			w = append(w, fmt.Sprintf("?%d", s[i]))
		}
	}
	return w
}

// homeOf is Session!StdHome.
func homeOf(nb int, client string) string {
	switch {
	case nb >= 2 && client == "c2":
		return "b2"
	case nb >= 3 && client == "c3":
		return "b3"
	}
	return "b1"
}

func describe(nb int, surveyed bool) string {
	s := fmt.Sprintf("%d brokers", nb)
	if surveyed {
		s += ", surveys answered"
	}
	return strings.TrimSpace(s)
}

// ClusterStage replays TLC-simulated client sessions on nb brokers and validates them against Session.tla with the
// matching Home map: after every request gossip and peer frames run to quiescence, and then every delivery, presence
// notification, last will and route of the real cluster must be what the one-broker specification prescribes for the
// cluster as a whole.  Returns the number of traces validated.
func ClusterStage(c *core.Ctx, what string, nb int, surveyed bool, fams []string, num, depth int) int {
	rng := rand.New(rand.NewSource(c.Seed + 77))
	type job struct {
		mode string
		walk []json.RawMessage
		i    int
		fam  string
	}
	var jobs []job
	modes := []string{"emitter", "mqtt"}
	for _, mode := range modes {
		for _, fam := range fams {
			// design level: the invariants of the session model do not depend on where the clients connect
			cfg := strings.Replace(mcCfg(mode, fam, `{"c1","c2","c3"}`, 3, 2, "none", true), "NB = 1", fmt.Sprintf("NB = %d", nb), 1)
			if surveyed {
				cfg = strings.Replace(cfg, "Surveyed = FALSE", "Surveyed = TRUE", 1)
			}
			c.ModelCheck("MC_Session", cfg, tlc.Opts{})
			for i, w := range SimulateN(c, mode, fam, num, depth, nb, rng) {
				jobs = append(jobs, job{mode, w, i, fam})
			}
		}
	}
	traces := map[string][]*core.Trace{}
	var mu sync.Mutex
	var wg sync.WaitGroup
	sem := make(chan struct{}, 8)
	var machinery []string
	for ji, j := range jobs {
		wg.Add(1)
		sem <- struct{}{}
		go func(ji int, j job) {
			defer wg.Done()
			defer func() { <-sem }()
			lic := 1 + (ji+int(c.Seed))%3
			t, err := ReplayN(nb, surveyed, j.mode, lic, "inmemory", j.walk, fmt.Sprintf("cluster%d-%s-%s-%d-lic%d", nb, j.fam, j.mode, j.i, lic), rand.New(rand.NewSource(c.Seed+int64(ji))))
			mu.Lock()
			defer mu.Unlock()
			if err != nil {
				machinery = append(machinery, err.Error())
				return
			}
			traces[j.mode] = append(traces[j.mode], t)
		}(ji, j)
	}
	wg.Wait()
	if len(machinery) > 0 {
		core.Fatalf("%d cluster behaviours could not be replayed, first: %s", len(machinery), machinery[0])
	}
	n := 0
	routed := int64(0)
	for _, mode := range modes {
		ts := traces[mode]
		sort.Slice(ts, func(i, j int) bool { return ts[i].Label < ts[j].Label })
		for _, t := range ts {
			c.Add("evaluations", int64(len(t.Events)-1))
			if bytes.Contains(bytes.Join(t.Events, nil), []byte(`["b2",[`)) || bytes.Contains(bytes.Join(t.Events, nil), []byte(`["b1",[`)) {
				routed++
			}
		}
		if len(ts) > 0 {
			t := ts[rng.Intn(len(ts))]
			c.Sample(map[string]any{"label": t.Label, "events_head": headEvents(t, 5)})
		}
		rej := c.ValidateTraces(ts, core.ValidateOpts{Module: "Session_Trace", Cfg: traceCfgN(mode, nb, surveyed), ChunkSize: 2500})
		c.ReportRejections(rej, what+" ("+describe(nb, surveyed)+", "+mode+" matcher)")
		n += len(ts)
	}
	c.Add("cluster_sessions_with_routes", routed)
	return n
}
