package session

// Concurrent clients (R -> V): every client runs its own request sequence on its own goroutine against one broker (or
// a cluster), so that subscribe / unsubscribe / publish / presence handlers of different connections really overlap.
// What a client holds depends on its own requests only, so the recorded requests - in any order that keeps each
// client's own order - drive Session.tla to the state the broker must be in when everything has been acknowledged;
// during the concurrent phase only each requester's own acknowledgements are compared ("conc" events).  Then the
// driver audits that state sequentially with ordinary, fully compared events: a probe publish on every channel, a
// presence status for every channel, every connection ended, index empty.

import (
	"encoding/json"
	"fmt"
	"math/rand"
	"runtime"
	"runtime/debug"
	"strings"
	"sync"
	"time"

	"github.com/emitter-io/emitter/internal/network/mqtt"
	"github.com/emitter-io/emitter/verif/bk"
	"github.com/emitter-io/emitter/verif/core"
)

// HammerOpts configures one concurrent run.
type HammerOpts struct {
	Mode     string
	Lic      int
	NB       int  // brokers
	Rounds   int  // requests per client
	K        int  // depth inflation of every channel level
	Ending   bool // one client ends abruptly in the middle of its sequence (with a will)
	Watch    bool // presence-change watchers are part of the mix
	Filters  [][]string
	Handover bool // with Pairs: every round is a hand-over of Filters[0] between c1 and c2
	Pairs    bool // race rounds: two clients fire one request each at the same moment, then the state is probed (see pairRounds)
}

type hammerEv struct {
	client string
	ev     map[string]any
}

// Hammer runs one concurrent phase plus audit and returns the trace.
func Hammer(o HammerOpts, label string, rng *rand.Rand) (*core.Trace, error) {
	f, err := newFabric(o.NB, o.Mode, o.Lic, "inmemory", false)
	if err != nil {
		return nil, fmt.Errorf("broker: %v", err)
	}
	defer f.close()
	b := f.bs["b1"]
	f.k = o.K
	w := &world{b: b, f: f, nb: o.NB, k: o.K, clients: map[string]*bk.Client{}, byID: map[string]string{}, names: []string{"c1", "c2", "c3"}}
	if w.keys, err = mintKeys(b); err != nil {
		return nil, err
	}
	tr := &core.Trace{Label: label}
	add := func(ev map[string]any) { tr.Events = append(tr.Events, core.Ev(ev)) }
	add(map[string]any{"e": "reset", "mode": o.Mode, "license": o.Lic})

	// sequential prologue: everybody connects (fully compared)
	ender := w.names[rng.Intn(2)] // (c3 may be the fixed watcher)
	for _, n := range w.names {
		c := f.bs[homeOf(o.NB, n)].Attach()
		w.clients[n] = c
		w.byID[c.ID] = n
		pkt := &mqtt.Connect{ClientID: []byte(n), UsernameFlag: true, Username: []byte("u-" + n)}
		will := map[string]any{"on": false}
		if o.Ending && n == ender {
			wf := o.Filters[0]
			pkt.WillFlag = true
			pkt.WillTopic = []byte(w.key("kAll") + "/" + w.ch(wf, "ok"))
			pkt.WillMessage = []byte("will")
			will = map[string]any{"on": true, "k": "kAll", "w": wf, "syn": "ok", "retain": false, "p": "will"}
		}
		c.Send(pkt)
		out, err := w.collect(n, "")
		if err != nil {
			return nil, err
		}
		cev := map[string]any{"e": "connect", "c": n, "u": "u-" + n, "will": will, "out": out, "tcount": 0}
		if f.multi() {
			cev["routes"] = f.routes(b.Lic.Contract())
		}
		add(cev)
	}

	fixedWatch := !o.Watch
	if fixedWatch {
		// a watcher whose own watch never changes: c3 asks for presence changes on the first level of the first filter
		// before the concurrent phase and does nothing else during it; every notification it is owed is checked
		wch := o.Filters[0][:1]
		req, _ := json.Marshal(map[string]any{"key": w.key("kAll"), "channel": w.ch(wch, "ok"), "status": false, "changes": true})
		w.clients["c3"].Send(&mqtt.Publish{Header: mqtt.Header{QOS: 1}, MessageID: 9, Topic: []byte("emitter/presence/"), Payload: req})
		out, err := w.collect("c3", "")
		if err != nil {
			return nil, err
		}
		pev := map[string]any{"e": "presence", "c": "c3", "k": "kAll", "w": wch, "syn": "ok", "status": false, "chg": "on", "out": out, "tcount": 1}
		if f.multi() {
			pev["routes"] = f.routes(b.Lic.Contract())
		}
		add(pev)
	}
	concDone := func() error {
		out, err := w.collect("", "")
		if err != nil {
			return err
		}
		if fixedWatch {
			got := map[string]any{}
			for n, r := range out {
				got[n] = r.A
			}
			add(map[string]any{"e": "concdone", "got": got})
		}
		return nil
	}
	if o.Pairs {
		if err := w.pairRounds(o, rng, add, concDone); err != nil {
			return nil, err
		}
	}
	// concurrent phase
	var mu sync.Mutex
	var log []hammerEv
	var wg sync.WaitGroup
	errs := make(chan error, len(w.names))
	for ci, n := range w.names {
		if fixedWatch && n == "c3" {
			continue
		}
		wg.Add(1)
		go func(ci int, n string) {
			defer wg.Done()
			r := rand.New(rand.NewSource(rng.Int63() + int64(ci)))
			c := w.clients[n]
			mid := uint16(0)
			endAt := -1
			if o.Ending && n == ender {
				endAt = o.Rounds/2 + r.Intn(o.Rounds/2)
			}
			for i := 0; i < o.Rounds; i++ {
				if i == endAt {
					c.C.Close()
					if !c.WaitServerClosed(stepTimeout) {
						errs <- fmt.Errorf("broker did not close %s", n)
						return
					}
					c.Closed = true
					mu.Lock()
					log = append(log, hammerEv{n, map[string]any{"e": "end", "c": n, "how": "drop", "conc": true, "acks": []any{}}})
					mu.Unlock()
					return
				}
				mid++
				fl := o.Filters[r.Intn(len(o.Filters))]
				ev := map[string]any{"c": n, "k": "kAll", "w": fl, "syn": "ok", "conc": true}
				switch x := r.Intn(10); {
				case x < 4:
					ev["e"], ev["last"], ev["win"] = "sub", 0, "none"
					c.Send(&mqtt.Subscribe{MessageID: mid, Subscriptions: []mqtt.TopicQOSTuple{{Topic: []byte(w.key("kAll") + "/" + w.ch(fl, "ok") + "?last=0")}}})
				case x < 8:
					ev["e"] = "unsub"
					c.Send(&mqtt.Unsubscribe{MessageID: mid, Topics: []mqtt.TopicQOSTuple{{Topic: []byte(w.key("kAll") + "/" + w.ch(fl, "ok"))}}})
				case x < 9 && o.Watch:
					on := r.Intn(2) == 0
					chg := "off"
					if on {
						chg = "on"
					}
					ev["e"], ev["status"], ev["chg"] = "presence", false, chg
					req, _ := json.Marshal(map[string]any{"key": w.key("kAll"), "channel": w.ch(fl, "ok"), "status": false, "changes": on})
					c.Send(&mqtt.Publish{Header: mqtt.Header{QOS: 1}, MessageID: mid, Topic: []byte("emitter/presence/"), Payload: req})
				default:
					if isWild(fl) {
						fl = o.Filters[0]
						ev["w"] = fl
					}
					p := fmt.Sprintf("h-%s-%d", n, i)
					ev["e"], ev["me0"], ev["ttl"], ev["via"], ev["retain"], ev["qos"], ev["p"] = "pub", false, -1, "", false, 1, p
					c.Send(&mqtt.Publish{Header: mqtt.Header{QOS: 1}, MessageID: mid, Topic: []byte(w.key("kAll") + "/" + w.ch(fl, "ok")), Payload: []byte(p)})
				}
				pk, err := c.Barrier(stepTimeout)
				if err != nil {
					errs <- fmt.Errorf("client %s (concurrent phase): %v", n, err)
					return
				}
				acks := []map[string]any{}
				for _, m := range pk {
					if p := bk.Abstract(m); p.T != "pub" && p.T != "pres" {
						acks = append(acks, w.toModel(p))
					}
				}
				ev["acks"] = acks
				mu.Lock()
				log = append(log, hammerEv{n, ev})
				mu.Unlock()
			}
		}(ci, n)
	}
	wg.Wait()
	select {
	case err := <-errs:
		return nil, err
	default:
	}
	for _, h := range log {
		add(h.ev)
	}

	// audit: everything below is compared completely
	step := func(n string, ev map[string]any, isSub string) error {
		out, err := w.collect(n, isSub)
		if err != nil {
			return err
		}
		ev["out"] = out
		tc := 0
		for _, bn := range f.names {
			tc += directEntries(f.bs[bn])
		}
		ev["tcount"] = tc
		if f.multi() {
			ev["routes"] = f.routes(b.Lic.Contract())
		}
		add(ev)
		return nil
	}
	// drain what the concurrent phase left in the inboxes (deliveries are not compared there; the notifications owed to
	// a fixed watcher are)
	if err := concDone(); err != nil {
		return nil, err
	}
	var open []string
	for _, n := range w.names {
		if !w.clients[n].Closed {
			open = append(open, n)
		}
	}
	mid := uint16(30000)
	for _, fl := range o.Filters {
		if isWild(fl) {
			continue
		}
		for _, n := range open {
			mid++
			c := w.clients[n]
			p := fmt.Sprintf("audit-%s-%d", n, mid)
			c.Send(&mqtt.Publish{Header: mqtt.Header{QOS: 1}, MessageID: mid, Topic: []byte(w.key("kAll") + "/" + w.ch(fl, "ok")), Payload: []byte(p)})
			if err := step(n, map[string]any{"e": "pub", "c": n, "k": "kAll", "w": fl, "syn": "ok", "me0": false, "ttl": -1, "via": "", "retain": false, "qos": 1, "p": p}, ""); err != nil {
				return nil, err
			}
		}
		n := open[0]
		mid++
		req, _ := json.Marshal(map[string]any{"key": w.key("kAll"), "channel": w.ch(fl, "ok"), "status": true})
		w.clients[n].Send(&mqtt.Publish{Header: mqtt.Header{QOS: 1}, MessageID: mid, Topic: []byte("emitter/presence/"), Payload: req})
		if err := step(n, map[string]any{"e": "presence", "c": n, "k": "kAll", "w": fl, "syn": "ok", "status": true, "chg": "none"}, ""); err != nil {
			return nil, err
		}
	}
	for _, n := range open {
		c := w.clients[n]
		c.Send(&mqtt.Disconnect{})
		if !c.WaitServerClosed(stepTimeout) {
			return nil, fmt.Errorf("broker did not close %s at the end", n)
		}
		c.Closed = true
		c.C.Close()
		if err := step(n, map[string]any{"e": "end", "c": n, "how": "disconnect"}, ""); err != nil {
			return nil, err
		}
	}
	return tr, nil
}

// pairRounds: in every round two clients send one request each at the same moment (subscribe / unsubscribe /
// presence watch on or off, on the same channel or on a channel below it), both wait for their acknowledgements, and a
// probe publish by one of them - compared completely - shows who holds what.  This is where handlers of different
// connections race on one branch of the index (e.g. one connection subscribing to a branch the other is pruning).
func (w *world) pairRounds(o HammerOpts, rng *rand.Rand, add func(map[string]any), concDone func() error) error {
	mid := uint16(10000)
	build := func(n string, op string, fl []string) (mqtt.Message, map[string]any) {
		mid++
		ev := map[string]any{"c": n, "k": "kAll", "w": fl, "syn": "ok", "conc": true}
		switch op {
		case "sub":
			ev["e"], ev["last"], ev["win"] = "sub", 0, "none"
			return &mqtt.Subscribe{MessageID: mid, Subscriptions: []mqtt.TopicQOSTuple{{Topic: []byte(w.key("kAll") + "/" + w.ch(fl, "ok") + "?last=0")}}}, ev
		case "unsub":
			ev["e"] = "unsub"
			return &mqtt.Unsubscribe{MessageID: mid, Topics: []mqtt.TopicQOSTuple{{Topic: []byte(w.key("kAll") + "/" + w.ch(fl, "ok"))}}}, ev
		}
		on := op == "watch"
		chg := "off"
		if on {
			chg = "on"
		}
		ev["e"], ev["status"], ev["chg"] = "presence", false, chg
		req, _ := json.Marshal(map[string]any{"key": w.key("kAll"), "channel": w.ch(fl, "ok"), "status": false, "changes": on})
		return &mqtt.Publish{Header: mqtt.Header{QOS: 1}, MessageID: mid, Topic: []byte("emitter/presence/"), Payload: req}, ev
	}
	ops := []string{"sub", "unsub", "sub", "unsub", "sub", "unsub"}
	if o.Watch {
		ops = append(ops, "watch", "unwatch")
	}
	holds := map[string]map[string]bool{} // what every client holds (its own acknowledged requests decide that)
	for _, n := range w.names {
		holds[n] = map[string]bool{}
	}
	fkey := func(f []string) string { return fmt.Sprint(f) }
	for r := 0; r < o.Rounds; r++ {
		pool := w.names
		if !o.Watch {
			pool = w.names[:2] // c3 is the fixed watcher: it only listens
		}
		i := rng.Intn(len(pool))
		a, b := pool[i], pool[(i+1+rng.Intn(len(pool)-1))%len(pool)]
		fa := o.Filters[rng.Intn(len(o.Filters))]
		fb := fa
		if rng.Intn(3) == 0 {
			fb = o.Filters[rng.Intn(len(o.Filters))]
		}
		opA, opB := ops[rng.Intn(len(ops))], ops[rng.Intn(len(ops))]
		if o.Handover {
			// strict hand-over of ONE branch between two connections: nobody else ever holds it or anything below it
			a, b, fa = w.names[0], w.names[1], o.Filters[0]
		}
		if o.Handover || rng.Intn(10) < 7 {
			// hand-over: the only holder of a branch lets go of it while another connection takes it
			fb = fa
			if holds[a][fkey(fa)] {
				opA, opB = "unsub", "sub"
			} else if holds[b][fkey(fa)] {
				opA, opB = "sub", "unsub"
			} else {
				opA, opB = "sub", "sub"
			}
		}
		for _, x := range [][2]string{{a, opA}, {b, opB}} {
			f := fa
			if x[0] == b {
				f = fb
			}
			if x[1] == "sub" {
				holds[x[0]][fkey(f)] = true
			} else if x[1] == "unsub" {
				delete(holds[x[0]], fkey(f))
			}
		}
		pa, ea := build(a, opA, fa)
		pb, eb := build(b, opB, fb)
		start := make(chan struct{})
		var wg sync.WaitGroup
		var errA, errB error
		// the two requests are sent a few hundred nanoseconds apart, the offset sweeping from round to round, so that
		// the handlers meet at different points
		skew := (r%64 - 32) * 40
		fire := func(n string, p mqtt.Message, ev map[string]any, errp *error, spin int) {
			defer wg.Done()
			c := w.clients[n]
			<-start
			for i := 0; i < spin; i++ {
				spinSink++
			}
			c.Send(p)
			pk, err := c.Barrier(stepTimeout)
			if err != nil {
				*errp = fmt.Errorf("client %s (race round %d): %v", n, r, err)
				return
			}
			acks := []map[string]any{}
			for _, m := range pk {
				if q := bk.Abstract(m); q.T != "pub" && q.T != "pres" {
					acks = append(acks, w.toModel(q))
				}
			}
			ev["acks"] = acks
		}
		wg.Add(2)
		go fire(a, pa, ea, &errA, skew)
		go fire(b, pb, eb, &errB, -skew)
		close(start)
		wg.Wait()
		if errA != nil {
			return errA
		}
		if errB != nil {
			return errB
		}
		add(ea)
		add(eb)
		// probe: drain (notifications owed to fixed watchers are compared), then one fully compared publish on the
		// concrete channel of the round
		if err := concDone(); err != nil {
			return err
		}
		probe := fa
		if isWild(probe) {
			probe = o.Filters[0]
		}
		mid++
		p := fmt.Sprintf("probe-%d", mid)
		w.clients[a].Send(&mqtt.Publish{Header: mqtt.Header{QOS: 1}, MessageID: mid, Topic: []byte(w.key("kAll") + "/" + w.ch(probe, "ok")), Payload: []byte(p)})
		out, err := w.collect(a, "")
		if err != nil {
			return err
		}
		ev := map[string]any{"e": "pub", "c": a, "k": "kAll", "w": probe, "syn": "ok", "me0": false, "ttl": -1, "via": "", "retain": false, "qos": 1, "p": p, "out": out}
		tc := 0
		for _, bn := range w.f.names {
			tc += directEntries(w.f.bs[bn])
		}
		ev["tcount"] = tc
		if w.f.multi() {
			ev["routes"] = w.f.routes(w.b.Lic.Contract())
		}
		add(ev)
	}
	return nil
}

var spinSink int64

func isWild(w []string) bool {
	for _, x := range w {
		if x == "+" || x == "#" {
			return true
		}
	}
	return false
}

// HammerStage runs n concurrent sessions per matcher and validates them.
func HammerStage(c *core.Ctx, what string, n, rounds int, nb int) {
	rng := rand.New(rand.NewSource(c.Seed + 4242))
	for _, mode := range []string{"emitter", "mqtt"} {
		var ts []*core.Trace
		for i := 0; i < n; i++ {
			filters := [][]string{{"a", "b"}, {"a"}, {"a", "b", "x"}}
			if i%2 == 1 {
				filters = [][]string{{"a", "b"}, {"b", "a"}, {"a", "+"}}
			}
			o := HammerOpts{Mode: mode, Lic: 1 + (i+int(c.Seed))%3, NB: nb, Rounds: rounds, K: []int{1, 8, 16}[i%3], Ending: i%2 == 0, Watch: i%3 != 2, Filters: filters, Pairs: i%2 == 1}
			if o.Pairs {
				o.K, o.Rounds = 32, 4*rounds
				o.Handover = i%4 == 1
				if o.Handover {
					o.K = 48
				}
			}
			t0 := time.Now()
			t, err := Hammer(o, fmt.Sprintf("hammer-%s-%d-k%d", mode, i, o.K), rng)
			core.Logf("hammer %s #%d (k=%d pairs=%v ending=%v): %v", mode, i, o.K, o.Pairs, o.Ending, time.Since(t0).Round(time.Millisecond))
			if err != nil {
				core.Fatalf("concurrent session %d (%s) could not be run: %v", i, mode, err)
			}
			c.Add("evaluations", int64(len(t.Events)-1))
			c.Add("concurrent_requests", int64(3*rounds))
			ts = append(ts, t)
		}
		rej := c.ValidateTraces(ts, core.ValidateOpts{Module: "Session_Trace", Cfg: traceCfgN(mode, nb, false), ChunkSize: 4000})
		c.ReportRejections(rej, what+" (concurrent clients, "+mode+" matcher)")
	}
}

// RetainStage (C07): sixteen connections publish retained messages of 20-60 KB on channels of their own AT THE SAME TIME
// (round after round, released together), then the store is read back and one of them subscribes with last=1000:
// every message stored once, under its channel, with its own payload; replayed exactly.
func RetainStage(c *core.Ctx, what string) {
	rng := rand.New(rand.NewSource(c.Seed + 707))
	runs, rounds := 2, 4
	if !c.Quick() {
		runs, rounds = 12, 8
	}
	names := []string{"c1", "c2", "c3", "c4", "c5", "c6", "c7", "c8", "c9", "c10", "c11", "c12", "c13", "c14", "c15", "c16"}
	// more runnable goroutines than processors and frequent collections: the handlers are descheduled in the middle of
	// storing (as on a busy broker), so whatever the store path shares between publishers is really shared
	oldProcs := runtime.GOMAXPROCS(4)
	oldGC := debug.SetGCPercent(5)
	defer func() { runtime.GOMAXPROCS(oldProcs); debug.SetGCPercent(oldGC) }()
	for _, mode := range []string{"emitter", "mqtt"} {
		var ts []*core.Trace
		for run := 0; run < runs; run++ {
			storage := []string{"inmemory", "ssd"}[run%2]
			f, err := newFabric(1, mode, 1+(run+int(c.Seed))%3, storage, false)
			if err != nil {
				core.Fatalf("broker: %v", err)
			}
			b := f.bs["b1"]
			w := &world{b: b, f: f, nb: 1, clients: map[string]*bk.Client{}, byID: map[string]string{}, names: names}
			if w.keys, err = mintKeys(b); err != nil {
				core.Fatalf("keys: %v", err)
			}
			tr := &core.Trace{Label: fmt.Sprintf("retain-concurrent-%s-%d-%s", mode, run, storage)}
			add := func(ev map[string]any) { tr.Events = append(tr.Events, core.Ev(ev)) }
			add(map[string]any{"e": "reset", "mode": mode})
			for _, n := range names {
				cl := b.Attach()
				w.clients[n] = cl
				w.byID[cl.ID] = n
				cl.Send(&mqtt.Connect{ClientID: []byte(n), UsernameFlag: true, Username: []byte("u-" + n)})
				out, err := w.collect(n, "")
				if err != nil {
					core.Fatalf("connect: %v", err)
				}
				add(map[string]any{"e": "connect", "c": n, "u": "u-" + n, "will": map[string]any{"on": false}, "out": out, "tcount": 0})
			}
			mid := uint16(100)
			for r := 0; r < rounds; r++ {
				start := make(chan struct{})
				var wg sync.WaitGroup
				evs := make([]map[string]any, len(names))
				errs := make([]error, len(names))
				for i, n := range names {
					mid++
					ch := []string{"a", fmt.Sprintf("p%dr%d", i, r)} // a channel of its own for every message
					p := fmt.Sprintf("%s-r%d-", n, r) + strings.Repeat(string(rune('a'+i)), 40000+rng.Intn(20000))
					pkt := &mqtt.Publish{Header: mqtt.Header{QOS: 1, Retain: true}, MessageID: mid, Topic: []byte(w.key("kAll") + "/" + w.ch(ch, "ok")), Payload: []byte(p)}
					evs[i] = map[string]any{"e": "pub", "c": n, "k": "kAll", "w": ch, "syn": "ok", "me0": false, "ttl": -1, "via": "", "retain": true, "qos": 1, "p": abbrev(p), "conc": true}
					wg.Add(1)
					go func(i int, n string) {
						defer wg.Done()
						<-start
						w.clients[n].Send(pkt)
						pk, err := w.clients[n].Barrier(stepTimeout)
						if err != nil {
							errs[i] = err
							return
						}
						acks := []map[string]any{}
						for _, m := range pk {
							if q := bk.Abstract(m); q.T != "pub" && q.T != "pres" {
								acks = append(acks, w.toModel(q))
							}
						}
						evs[i]["acks"] = acks
					}(i, n)
				}
				close(start)
				wg.Wait()
				for i := range names {
					if errs[i] != nil {
						core.Fatalf("concurrent retained publish: %v", errs[i])
					}
					add(evs[i])
				}
			}
			// audit: the store, then a subscription that asks for everything
			if _, err := w.collect("", ""); err != nil {
				core.Fatalf("drain: %v", err)
			}
			mid++
			w.clients["c1"].Send(&mqtt.Publish{Header: mqtt.Header{QOS: 1, Retain: true}, MessageID: mid, Topic: []byte(w.key("kAll") + "/" + w.ch([]string{"a", "last"}, "ok")), Payload: []byte("last")})
			out, err := w.collect("c1", "")
			if err != nil {
				core.Fatalf("audit publish: %v", err)
			}
			// (no read-back of the whole store here: a query reply holds at most 64 KiB)
			add(map[string]any{"e": "pub", "c": "c1", "k": "kAll", "w": []string{"a", "last"}, "syn": "ok", "me0": false, "ttl": -1, "via": "", "retain": true, "qos": 1, "p": "last", "out": out, "tcount": 0})
			// (a reply holds at most 64 KiB: the newest message of each publisher's channel is asked for separately)
			nsub := 0
			for r := 0; r < rounds; r++ {
				for i := range names {
					mid++
					nsub++
					subW := []string{"a", fmt.Sprintf("p%dr%d", i, r)}
					w.clients["c2"].Send(&mqtt.Subscribe{MessageID: mid, Subscriptions: []mqtt.TopicQOSTuple{{Topic: []byte(w.key("kAll") + "/" + w.ch(subW, "ok") + "?last=1")}}})
					out, err = w.collect("c2", "c2")
					if err != nil {
						core.Fatalf("audit subscribe: %v", err)
					}
					add(map[string]any{"e": "sub", "c": "c2", "k": "kAll", "w": subW, "syn": "ok", "last": 1, "win": "none", "out": out, "tcount": nsub})
				}
			}
			f.close()
			c.Add("evaluations", int64(len(tr.Events)-1))
			c.Add("concurrent_retained_publishes", int64(rounds*len(names)))
			ts = append(ts, tr)
		}
		cfg := strings.Replace(traceCfgN(mode, 1, false), `{"c1","c2","c3"}`, `{"c1","c2","c3","c4","c5","c6","c7","c8","c9","c10","c11","c12","c13","c14","c15","c16"}`, 1)
		rej := c.ValidateTraces(ts, core.ValidateOpts{Module: "Session_Trace", Cfg: cfg, ChunkSize: 4000})
		c.ReportRejections(rej, what+" (sixteen concurrent publishers of retained messages, "+mode+" matcher)")
	}
}
