// Package session binds spec/Session.tla to a real broker.Service driven over in-memory MQTT connections
// (properties C02, C07, C08, C18).
package session

import (
	"bytes"
	"crypto/sha1"
	"encoding/json"
	"fmt"
	"github.com/emitter-io/emitter/internal/security/hash"
	"math/rand"
	"os"
	"sort"
	"strings"
	"sync"
	"time"

	"github.com/emitter-io/emitter/internal/message"
	"github.com/emitter-io/emitter/internal/network/mqtt"
	"github.com/emitter-io/emitter/verif/bk"
	"github.com/emitter-io/emitter/verif/core"
	"github.com/emitter-io/emitter/verif/tlc"
)

// Action is one request of a TLC-generated behaviour.
type Action struct {
	Stall  string          `json:"stall"` // (end) this client stops reading for the first 150 ms of the step: writes to it block
	N      string          `json:"n"`
	C      string          `json:"c"`
	U      string          `json:"u"`
	Will   json.RawMessage `json:"will"`
	K      string          `json:"k"`
	W      []string        `json:"w"`
	Syn    string          `json:"syn"`
	Last   int             `json:"last"`
	Win    string          `json:"win"`
	Me0    bool            `json:"me0"`
	TTL    int             `json:"ttl"`
	Via    string          `json:"via"`
	Retain bool            `json:"retain"`
	Qos    int             `json:"qos"`
	P      string          `json:"p"`
	Name   string          `json:"name"`
	Sub    bool            `json:"sub"`
	Status bool            `json:"status"`
	Chg    string          `json:"chg"`
	How    string          `json:"how"`
	CutPk  string          `json:"cut_pk"`  // cut sweep (added by the driver, not by TLC): which packet is cut ...
	CutOff int             `json:"cut_off"` // ... and after how many bytes
	Cls    string          `json:"cls"`
	Fn     string          `json:"fn"`
	Idx    int             `json:"idx"`
}

type willRec struct {
	On     bool     `json:"on"`
	K      string   `json:"k"`
	W      []string `json:"w"`
	Syn    string   `json:"syn"`
	Retain bool     `json:"retain"`
	P      string   `json:"p"`
}

const stepTimeout = 8 * time.Second

// EventSink, when set, receives every event as soon as it is recorded (used by the child-process replayer so that a
// trace survives the death of the process).
var EventSink func(label string, ev []byte)

// StepSink, when set, is told which request is about to be executed (the child-process replayer records it, so that the
// parent knows what the broker was serving when the process died or hung).
var StepSink func(label string, raw []byte)

// Keys minted for a broker, by model name.
func mintKeys(b *bk.Broker) (map[string]string, error) {
	out := map[string]string{"kBad": "thiskeydoesnotdecryptthiskeydoes"}
	for name, perms := range map[string]string{"kAll": "rwslp", "kRO": "rlp", "kWO": "ws", "kNoSL": "rwp", "kExt": "rwe"} {
		k, err := b.Key("#/", perms, time.Unix(0, 0))
		if err != nil {
			return nil, err
		}
		out[name] = k
	}
	// a key whose target is a branch (not the all-covering "#/"): the target arithmetic of Key.ValidateChannel runs
	if k, err := b.Key("stranger/#/", "rwslp", time.Unix(0, 0)); err == nil {
		out["kBranch"] = k
	}
	return out, nil
}

func chanString(w []string, syn string) string {
	s := strings.Join(w, "/")
	switch syn {
	case "noslash":
		return s
	case "empty":
		return ""
	}
	return s + "/"
}

// ch renders a model channel as the real channel string, every level repeated k times ('#' stays single: it is only
// valid as the last level).
func (w *world) ch(wd []string, syn string) string {
	if w.rename != nil {
		r := make([]string, len(wd))
		for i, x := range wd {
			r[i] = x
			if y, ok := w.rename[x]; ok {
				r[i] = y
			}
		}
		wd = r
	}
	if w.k <= 1 {
		return chanString(wd, syn)
	}
	var out []string
	for _, x := range wd {
		n := w.k
		if x == "#" {
			n = 1
		}
		for i := 0; i < n; i++ {
			out = append(out, x)
		}
	}
	return chanString(out, syn)
}

// words is the inverse of ch.
func (w *world) words(ch string) []string {
	ws := words(ch)
	if w.rename != nil {
		for i, x := range ws {
			for from, to := range w.rename {
				if x == to {
					ws[i] = from
				}
			}
		}
	}
	if w.k <= 1 {
		return ws
	}
	out := []string{}
	for i := 0; i < len(ws); {
		out = append(out, ws[i])
		if ws[i] == "#" {
			i++
		} else {
			i += w.k
		}
	}
	return out
}

// abbrev stands for a long payload in events: its head, length and digest (the same function wherever a payload is
// logged, so equal payloads stay equal and different ones different).
func abbrev(p string) string {
	if len(p) <= 80 {
		return p
	}
	h := sha1.Sum([]byte(p))
	return fmt.Sprintf("%x..#%d#%x", p[:16], len(p), h[:8])
}

func words(ch string) []string {
	if i := strings.IndexByte(ch, '?'); i >= 0 {
		ch = ch[:i]
	}
	ch = strings.TrimSuffix(ch, "/")
	if ch == "" {
		return []string{}
	}
	return strings.Split(ch, "/")
}

func options(a *Action) string {
	var o []string
	if a.Me0 {
		o = append(o, "me=0")
	}
	if a.TTL >= 0 && (a.N == "pub" || a.N == "link") {
		o = append(o, fmt.Sprintf("ttl=%d", a.TTL))
	}
	if a.N == "sub" || a.N == "history" {
		if a.Last >= 0 {
			o = append(o, fmt.Sprintf("last=%d", a.Last))
		}
		switch a.Win {
		case "fromPast":
			o = append(o, "from=1600000000")
		case "fromFuture":
			o = append(o, "from=3000000000")
		case "untilPast":
			o = append(o, "until=1600000000")
		case "untilFuture":
			o = append(o, "until=3000000000")
		}
	}
	if len(o) == 0 {
		return ""
	}
	return "?" + strings.Join(o, "&")
}

type world struct {
	b       *bk.Broker // the first broker (the only one unless the replay runs a cluster)
	f       *fabric
	nb      int
	rename  map[string]string // model word -> the word used on the wire (names that look reserved: "presence", "query", ...)
	broken  map[string]bool // connections the broker closed although no request ended them
	k       int             // depth inflation: every channel word is repeated k times (0 or 1 = as is); semantics-preserving for literals and '+'
	keys    map[string]string
	clients map[string]*bk.Client
	names   []string
	byID    map[string]string
	msgID   uint16
}

type outRec struct {
	S []map[string]any `json:"s"`
	A []map[string]any `json:"a"`
}

func (w *world) key(name string) string {
	if k, ok := w.keys[name]; ok {
		return k
	}
	return name
}

// toModel converts an abstract packet into the record shape the trace specification compares.
func (w *world) toModel(p bk.Pkt) map[string]any {
	p.P = abbrev(p.P)
	switch p.T {
	case "connack", "suback", "err":
		return map[string]any{"t": p.T, "code": p.Code}
	case "pub":
		return map[string]any{"t": "pub", "ch": w.words(p.Ch), "p": p.P}
	case "pres":
		return map[string]any{"t": "pres", "ev": p.Ev, "ch": w.words(p.Ch), "who": w.byIDName(p.Who[0]), "user": p.Users[0]}
	case "hist":
		msgs := [][]any{}
		for _, x := range p.Msgs {
			msgs = append(msgs, []any{w.words(x[0]), abbrev(x[1])})
		}
		return map[string]any{"t": "hist", "msgs": msgs}
	case "resp":
		m := map[string]any{"t": "resp", "api": p.Api, "code": p.Code, "ev": p.Ev, "name": p.Name, "ch": w.words(p.Ch)}
		who := [][]string{}
		for i := range p.Who {
			who = append(who, []string{w.byIDName(p.Who[i]), p.Users[i]})
		}
		sort.Slice(who, func(i, j int) bool { return who[i][0] < who[j][0] })
		m["who"] = who
		return m
	}
	return map[string]any{"t": p.T}
}

func (w *world) byIDName(id string) string {
	if n, ok := w.byID[id]; ok {
		return n
	}
	return "?" + id
}

// collect delimits the step and splits what each client received into the synchronous stream and notifications:
// (1) a PINGREQ/PINGRESP round trip on the requester: its request has been handled completely; (2) a sentinel through
// the presence queue: every notification the request caused has been published; (3) a round trip on every open
// connection: everything written to it so far has been read.
func (w *world) collect(requester, isSub string) (map[string]*outRec, error) {
	out := map[string]*outRec{}
	got := map[string][]mqtt.Message{}
	for _, n := range w.names {
		out[n] = &outRec{S: []map[string]any{}, A: []map[string]any{}}
	}
	// a connection the broker closed although the request does not end it is an observation (no action of the
	// specification explains a "closed-by-broker" packet), not a failure of the driver; only a timeout is
	closedByBroker := map[string]bool{}
	if c := w.clients[requester]; c != nil && !c.Closed {
		pk, err := c.Barrier(stepTimeout)
		if err != nil {
			if err == bk.ErrTimeout {
				return out, fmt.Errorf("client %s: %v", requester, err)
			}
			closedByBroker[requester] = true
			c.Closed = true
			if w.broken == nil {
				w.broken = map[string]bool{}
			}
			w.broken[requester] = true
		}
		got[requester] = pk
	}
	if w.f.multi() {
		w.f.stopPump()
		w.f.settle()
	} else {
		w.b.Svc.VerifPresenceBarrier()
	}
	for _, n := range w.names {
		c := w.clients[n]
		if c == nil || c.Closed {
			continue
		}
		pk, err := c.Barrier(stepTimeout)
		if err != nil {
			if err == bk.ErrTimeout {
				return out, fmt.Errorf("client %s: %v", n, err)
			}
			closedByBroker[n] = true
			c.Closed = true
			if w.broken == nil {
				w.broken = map[string]bool{}
			}
			w.broken[n] = true
		}
		pk = append(got[n], pk...)
		var replay [][]any
		flush := func() {
			if replay != nil {
				out[n].S = append(out[n].S, map[string]any{"t": "replay", "msgs": replay})
				replay = nil
			}
		}
		for _, m := range pk {
			p := bk.Abstract(m)
			if p.T == "pres" {
				out[n].A = append(out[n].A, w.toModel(p))
				continue
			}
			if p.T == "pub" && n == isSub {
				replay = append(replay, []any{w.words(p.Ch), abbrev(p.P)})
				continue
			}
			flush()
			out[n].S = append(out[n].S, w.toModel(p))
		}
		flush()
		if closedByBroker[n] {
			out[n].S = append(out[n].S, map[string]any{"t": "closed-by-broker"})
		}
	}
	for n := range closedByBroker {
		if w.clients[n] != nil && len(out[n].S) == 0 || (len(out[n].S) > 0 && out[n].S[len(out[n].S)-1]["t"] != "closed-by-broker") {
			out[n].S = append(out[n].S, map[string]any{"t": "closed-by-broker"})
		}
	}
	return out, nil
}

func fixedHeader(typ byte, flags byte, remaining int) []byte {
	b := []byte{typ<<4 | flags}
	for {
		d := byte(remaining % 128)
		remaining /= 128
		if remaining > 0 {
			d |= 0x80
		}
		b = append(b, d)
		if remaining == 0 {
			return b
		}
	}
}

// hostile sends the bytes of one hostile class on connection c and reports whether the broker closed the connection.
// An error means the broker neither answered nor closed in time (hang).
func (w *world) hostile(c *bk.Client, cls string, rng *rand.Rand) (bool, error) {
	k := w.key("kAll")
	pub := func(topic string, payload string) {
		w.msgID++
		c.Send(&mqtt.Publish{Header: mqtt.Header{QOS: 1}, MessageID: w.msgID, Topic: []byte(topic), Payload: []byte(payload)})
	}
	pings := 0
	switch cls {
	case "type0":
		c.SendRaw([]byte{0x00, 0x00})
	case "type15":
		c.SendRaw([]byte{0xF0, 0x02, 1, 2})
	case "oversize":
		c.SendRaw(append(fixedHeader(3, 0, 70000), 0, 1, 'a'))
	case "len5":
		c.SendRaw([]byte{0x30, 0xFF, 0xFF, 0xFF, 0xFF, 0x7F, 0, 1})
	case "strlen":
		c.SendRaw(append(fixedHeader(8, 2, 6), 0, 1, 0xFF, 0xFF, 'a', 0))
	case "garbage":
		b := make([]byte, 40)
		rng.Read(b)
		b[0] = 0x0F
		b[1] = 38 // the declared length covers exactly the rest: a longer one would make the broker wait (rightly) for more bytes
		c.SendRaw(b)
	case "short-connect":
		c.SendRaw(append(fixedHeader(1, 0, 3), 0, 4, 'M'))
	case "sub-last-huge":
		w.msgID++
		c.Send(&mqtt.Subscribe{MessageID: w.msgID, Subscriptions: []mqtt.TopicQOSTuple{{Topic: []byte(k + "/a/?last=99999999999")}}})
	case "sub-last-max":
		w.msgID++
		c.Send(&mqtt.Subscribe{MessageID: w.msgID, Subscriptions: []mqtt.TopicQOSTuple{{Topic: []byte(k + "/a/?last=9223372036854775807")}}})
	case "history-last-huge":
		pub("emitter/history/", fmt.Sprintf(`{"key":%q,"channel":"%s/a/?last=99999999999"}`, k, k))
	case "keygen-illtyped":
		pub("emitter/keygen/", `{"key":123,"channel":[],"type":{},"ttl":"x"}`)
	case "presence-illtyped":
		pub("emitter/presence/", `{"key":{"a":1},"channel":17,"status":"yes","changes":3}`)
	case "link-longname":
		pub("emitter/link/", fmt.Sprintf(`{"name":%q,"key":%q,"channel":"a/","subscribe":true}`, strings.Repeat("n", 300), k))
	case "pub-ttl-huge":
		pub(k+"/hostile/?ttl=99999999999999999", "x")
	case "pub-window-extreme":
		pub(k+"/hostile/?from=99999999999999999&until=0&last=0&me=7", "x")
	case "api-unknown":
		pub("emitter/doesnotexist/", `{}`)
	case "pub-many-options":
		var o []string
		for i := 0; i < 300; i++ {
			o = append(o, fmt.Sprintf("o%d=%d", i, i))
		}
		pub(k+"/hostile/?"+strings.Join(o, "&"), "x")
	case "sub-deep", "sub-plus-deep", "sub-mixed-deep":
		// a well-formed channel with very many levels (literal, all '+', alternating): subscribed and unsubscribed again
		lv := map[string]string{"sub-deep": "d/", "sub-plus-deep": "+/", "sub-mixed-deep": "d/+/"}[cls]
		n := map[string]int{"sub-deep": 64, "sub-plus-deep": 40, "sub-mixed-deep": 24}[cls]
		topic := []byte(k + "/deep/" + strings.Repeat(lv, n))
		if w.msgID%2 == 1 {
			// every other time with a key whose target is the branch "stranger/#/" (the deep levels are then checked
			// against the key's target path, not waved through by the all-covering target)
			topic = []byte(w.key("kBranch") + "/stranger/" + strings.Repeat(lv, n))
		}
		w.msgID++
		c.Send(&mqtt.Subscribe{MessageID: w.msgID, Subscriptions: []mqtt.TopicQOSTuple{{Topic: topic}}})
		w.msgID++
		c.Send(&mqtt.Unsubscribe{MessageID: w.msgID, Topics: []mqtt.TopicQOSTuple{{Topic: topic}}})
	case "sub-deep-drop", "sub-plus-deep-drop":
		// the same channels, held when the socket closes (Close unsubscribes them)
		lv, n := "d/", 64
		if cls == "sub-plus-deep-drop" {
			lv, n = "+/", 40
		}
		w.msgID++
		c.Send(&mqtt.Subscribe{MessageID: w.msgID, Subscriptions: []mqtt.TopicQOSTuple{{Topic: []byte(k + "/deep/" + strings.Repeat(lv, n))}}})
		if _, err := c.Barrier(stepTimeout); err != nil {
			return false, fmt.Errorf("hostile class %s: no answer to the subscription (hang)", cls)
		}
		c.C.Close()
		if !c.WaitServerClosed(stepTimeout) {
			return false, fmt.Errorf("hostile class %s: the broker did not finish closing the connection (hang)", cls)
		}
		return true, nil
	case "sub-many-topics":
		// one SUBSCRIBE packet with 400 topics, then one UNSUBSCRIBE packet with the same 400
		var subs, unsubs []mqtt.TopicQOSTuple
		for i := 0; i < 400; i++ {
			subs = append(subs, mqtt.TopicQOSTuple{Topic: []byte(fmt.Sprintf("%s/many/t%d/", k, i))})
			unsubs = append(unsubs, mqtt.TopicQOSTuple{Topic: []byte(fmt.Sprintf("%s/many/t%d/", k, i))})
		}
		w.msgID++
		c.Send(&mqtt.Subscribe{MessageID: w.msgID, Subscriptions: subs})
		w.msgID++
		c.Send(&mqtt.Unsubscribe{MessageID: w.msgID, Topics: unsubs})
	case "sub-long-level":
		topic := []byte(k + "/" + strings.Repeat("L", 60000) + "/")
		w.msgID++
		c.Send(&mqtt.Subscribe{MessageID: w.msgID, Subscriptions: []mqtt.TopicQOSTuple{{Topic: topic}}})
		w.msgID++
		c.Send(&mqtt.Unsubscribe{MessageID: w.msgID, Topics: []mqtt.TopicQOSTuple{{Topic: topic}}})
	case "pub-deep":
		pub(k+"/deep/"+strings.Repeat("d/", 200), "x")
	case "presence-plus-deep":
		// watch a channel of 40 '+' levels, subscribe to it (a notification is published for it), and undo both
		ch := "deep/" + strings.Repeat("+/", 40)
		pub("emitter/presence/", fmt.Sprintf(`{"key":%q,"channel":%q,"status":true,"changes":true}`, k, ch))
		w.msgID++
		c.Send(&mqtt.Subscribe{MessageID: w.msgID, Subscriptions: []mqtt.TopicQOSTuple{{Topic: []byte(k + "/" + ch)}}})
		w.msgID++
		c.Send(&mqtt.Unsubscribe{MessageID: w.msgID, Topics: []mqtt.TopicQOSTuple{{Topic: []byte(k + "/" + ch)}}})
		pub("emitter/presence/", fmt.Sprintf(`{"key":%q,"channel":%q,"status":false,"changes":false}`, k, ch))
	case "ping-flood":
		pings = 1500
		for i := 0; i < pings; i++ {
			c.Send(&mqtt.Pingreq{})
		}
	default:
		if strings.HasPrefix(cls, "empty-") {
			typ := map[string]byte{"connect": 1, "connack": 2, "publish": 3, "puback": 4, "pubrel": 6, "subscribe": 8, "suback": 9, "unsubscribe": 10, "unsuback": 11}[strings.TrimPrefix(cls, "empty-")]
			c.SendRaw([]byte{typ << 4, 0x00})
		} else {
			return false, fmt.Errorf("unknown hostile class %q", cls)
		}
	}
	// drain the flood's answers so that later barriers see their own PINGRESP
	for i := 0; i < pings; i++ {
		if _, err := c.Barrier0(stepTimeout); err != nil {
			break
		}
	}
	select {
	case <-c.S.Closed():
		return true, nil
	case <-time.After(150 * time.Millisecond):
	}
	// still open? then it must answer a ping; the replies it produced are collected by the step's barriers
	c.Send(&mqtt.Pingreq{})
	deadline := time.After(stepTimeout)
	for {
		select {
		case <-c.S.Closed():
			return true, nil
		case <-deadline:
			return false, fmt.Errorf("hostile class %s: the broker neither answered nor closed the connection (hang)", cls)
		default:
		}
		if c.C.Buffered() > 0 {
			// something arrived: leave it for collect() - but the PINGRESP of this probe must be swallowed there; mark it
			c.PendingPong++
			return false, nil
		}
		time.Sleep(2 * time.Millisecond)
	}
}

// directEntries counts the trie entries held by client connections (remote peers learnt from gossip are C05's subject).
func directEntries(b *bk.Broker) int {
	n := 0
	for _, e := range b.Svc.VerifTrie().VerifEntries() {
		if e.Type == message.SubscriberDirect && !(len(e.Ssid) >= 2 && e.Ssid[0] == 0 && e.Ssid[1] == message.Query[1]) {
			n++
		}
	}
	return n
}

// Replay executes one behaviour on a fresh broker and records the trace. A nil trace with an error means the
// machinery failed (broker did not start, a client timed out): never a verdict by itself.
func Replay(mode string, licVer int, storage string, walk []json.RawMessage, label string, rng *rand.Rand) (*core.Trace, error) {
	return ReplayN(1, false, mode, licVer, storage, walk, label, rng)
}

// ReplayN executes one behaviour on nb brokers (clients placed as Session!StdHome says); see cluster.go.
func ReplayN(nb int, surveyed bool, mode string, licVer int, storage string, walk []json.RawMessage, label string, rng *rand.Rand) (*core.Trace, error) {
	return replayWith(nb, surveyed, false, mode, licVer, storage, walk, label, rng)
}

// ReplayStandalone executes one behaviour on a broker whose configuration has no cluster section (a single node: no
// swarm, no replicated state, bans and surveys have nobody to talk to).  The specification is the same.
func ReplayStandalone(mode string, licVer int, storage string, walk []json.RawMessage, label string, rng *rand.Rand) (*core.Trace, error) {
	return replayWith(1, false, true, mode, licVer, storage, walk, label, rng)
}

func replayWith(nb int, surveyed, standalone bool, mode string, licVer int, storage string, walk []json.RawMessage, label string, rng *rand.Rand) (*core.Trace, error) {
	// a behaviour in which the broker restarts runs on the disk-backed store (in its own directory, kept across the restart)
	restartDir := ""
	for _, raw := range walk {
		if bytes.Contains(raw, []byte(`"n":"restart"`)) {
			storage = "ssd"
			d, err := os.MkdirTemp("", "vrestart-")
			if err != nil {
				return nil, err
			}
			restartDir = d
			defer os.RemoveAll(d)
			break
		}
	}
	f, err := newFabricWith(nb, mode, licVer, storage, surveyed, restartDir, standalone)
	if err != nil {
		return nil, fmt.Errorf("broker: %v", err)
	}
	defer func() { f.close() }()
	b := f.bs["b1"]
	w := &world{b: b, f: f, nb: nb, clients: map[string]*bk.Client{}, byID: map[string]string{}, names: []string{"c1", "c2", "c3"}}
	hasHostile := false
	for _, raw := range walk {
		if bytes.Contains(raw, []byte(`"n":"hostile"`)) {
			hasHostile = true // (the hostile classes spell their channels out themselves)
		}
	}
	if nb == 1 && len(label)%5 == 2 && !hasHostile {
		// the same behaviour with channel levels that carry the names of the broker's own namespaces: a level is a
		// level, whatever it is called
		w.rename = map[string]string{"a": "presence", "b": "query", "x": "share", "y": "emitter"}
	}
	if w.keys, err = mintKeys(b); err != nil {
		return nil, err
	}
	closedByHostile := map[string]bool{}
	tr := &core.Trace{Label: label}
	tr.Events = append(tr.Events, core.Ev(map[string]any{"e": "reset", "mode": mode, "license": licVer}))
	if EventSink != nil {
		EventSink(label, tr.Events[0])
	}
	for _, raw := range walk {
		var a Action
		if err := json.Unmarshal(raw, &a); err != nil {
			return nil, fmt.Errorf("bad action %s: %v", raw, err)
		}
		ev := map[string]any{}
		json.Unmarshal(raw, &ev)
		ev["e"] = a.N
		delete(ev, "n")
		c := w.clients[a.C]
		if a.N != "connect" && a.N != "cluster" && a.N != "restart" && a.N != "stranger" && (c == nil || c.Closed) {
			if closedByHostile[a.C] || w.broken[a.C] {
				break // the generator assumed the connection survives its hostile request; the broker closed it (allowed): the behaviour ends here
			}
			return nil, fmt.Errorf("behaviour uses client %s which is not open", a.C)
		}
		w.msgID++
		if a.N == "pub" {
			// make every published payload distinguishable; the logged request carries the payload actually sent
			a.P = fmt.Sprintf("%s-%d", a.P, w.msgID)
			if w.msgID%6 == 5 {
				// every sixth payload is binary and a few kilobytes long: all byte values, zero bytes, invalid UTF-8
				bin := make([]byte, 2000+int(w.msgID)*37%3000)
				for i := range bin {
					bin[i] = byte(i*7 + int(w.msgID))
				}
				a.P = a.P + string(bin)
			}
			ev["p"] = abbrev(a.P)
		}
		isSub := ""
		if StepSink != nil {
			StepSink(label, raw)
		}
		f.startPump()
		switch a.N {
		case "connect":
			c = f.bs[homeOf(nb, a.C)].Attach()
			w.clients[a.C] = c
			w.byID[c.ID] = a.C
			pkt := &mqtt.Connect{ClientID: []byte(a.C), UsernameFlag: true, Username: []byte(a.U)}
			var wl willRec
			json.Unmarshal(a.Will, &wl)
			if wl.On {
				pkt.WillFlag, pkt.WillRetainFlag = true, wl.Retain
				pkt.WillTopic = []byte(w.key(wl.K) + "/" + w.ch(wl.W, wl.Syn))
				pkt.WillMessage = []byte(wl.P)
			}
			c.Send(pkt)
		case "sub":
			isSub = a.C
			c.Send(&mqtt.Subscribe{MessageID: w.msgID, Subscriptions: []mqtt.TopicQOSTuple{{Topic: []byte(w.key(a.K) + "/" + w.ch(a.W, a.Syn) + options(&a))}}})
		case "unsub":
			c.Send(&mqtt.Unsubscribe{MessageID: w.msgID, Topics: []mqtt.TopicQOSTuple{{Topic: []byte(w.key(a.K) + "/" + w.ch(a.W, a.Syn))}}})
		case "pub":
			topic := a.Via
			if a.Via == "" {
				topic = w.key(a.K) + "/" + w.ch(a.W, a.Syn) + options(&a)
			}
			c.Send(&mqtt.Publish{Header: mqtt.Header{QOS: uint8(a.Qos), Retain: a.Retain}, MessageID: w.msgID, Topic: []byte(topic), Payload: []byte(a.P)})
		case "link":
			req, _ := json.Marshal(map[string]any{"name": a.Name, "key": w.key(a.K), "channel": w.ch(a.W, a.Syn) + options(&a), "subscribe": a.Sub})
			c.Send(&mqtt.Publish{Header: mqtt.Header{QOS: 1}, MessageID: w.msgID, Topic: []byte("emitter/link/"), Payload: req})
		case "history":
			req, _ := json.Marshal(map[string]any{"key": w.key(a.K), "channel": w.key(a.K) + "/" + w.ch(a.W, a.Syn) + options(&a)})
			c.Send(&mqtt.Publish{Header: mqtt.Header{QOS: 1}, MessageID: w.msgID, Topic: []byte("emitter/history/"), Payload: req})
		case "presence":
			m := map[string]any{"key": w.key(a.K), "channel": w.ch(a.W, a.Syn), "status": a.Status}
			if a.Chg == "on" {
				m["changes"] = true
			} else if a.Chg == "off" {
				m["changes"] = false
			}
			req, _ := json.Marshal(m)
			c.Send(&mqtt.Publish{Header: mqtt.Header{QOS: 1}, MessageID: w.msgID, Topic: []byte("emitter/presence/"), Payload: req})
		case "end":
			if sc := w.clients[a.Stall]; a.Stall != "" && sc != nil && !sc.Closed {
				sc.C.Stall(true)
				go func() { time.Sleep(150 * time.Millisecond); sc.C.Stall(false) }()
			}
			switch a.How {
			case "disconnect":
				c.Send(&mqtt.Disconnect{})
			case "cut":
				// the socket closes inside a packet: a SUBSCRIBE at a seeded byte offset, or (cut sweep) the packet and offset
				// the job names; the cut PUBLISH goes to a channel of the alphabet, so that a broker acting on a truncated
				// packet would deliver something the model does not allow
				var buf strings.Builder
				if a.CutPk == "pub" {
					(&mqtt.Publish{Header: mqtt.Header{QOS: 1, Retain: true}, MessageID: w.msgID, Topic: []byte(w.key("kAll") + "/a/"), Payload: []byte("cut-payload")}).EncodeTo(&buf)
				} else {
					(&mqtt.Subscribe{MessageID: w.msgID, Subscriptions: []mqtt.TopicQOSTuple{{Topic: []byte(w.key("kAll") + "/cut/here/")}}}).EncodeTo(&buf)
				}
				raw := []byte(buf.String())
				off := 1 + rng.Intn(len(raw)-1)
				if a.CutOff > 0 {
					off = 1 + (a.CutOff-1)%(len(raw)-1)
				}
				ev["cut_at"] = off
				ev["cut_pk"] = a.CutPk
				c.SendRaw(raw[:off])
				c.C.Close()
			case "garbage":
				c.SendRaw([]byte{0x00, 0x05, 1, 2, 3, 4, 5})
			case "panic":
				// a packet whose body is too short for its type: the decoder indexes past the end, the panic is recovered
				// by Conn.Close ("an internal failure while serving it")
				c.SendRaw([][]byte{{0x40, 0x00}, {0x82, 0x01, 0x00}, {0x10, 0x02, 0x00, 0x04}, {0xB0, 0x00}}[rng.Intn(4)])
			default:
				c.C.Close()
			}
			if !c.WaitServerClosed(stepTimeout) {
				return nil, fmt.Errorf("broker did not close connection %s after %s", a.C, a.How)
			}
			c.Closed = true
			c.C.Close()
		case "stranger":
			// a connection that never sends CONNECT
			x := b.Attach()
			switch a.Cls {
			case "ping":
				x.Send(&mqtt.Pingreq{})
				x.Barrier0(stepTimeout)
			case "disconnect":
				x.Send(&mqtt.Disconnect{})
			case "cut-connect":
				var buf strings.Builder
				(&mqtt.Connect{ClientID: []byte("stranger"), UsernameFlag: true, Username: []byte("nobody")}).EncodeTo(&buf)
				raw := []byte(buf.String())
				x.SendRaw(raw[:1+rng.Intn(len(raw)-1)])
			case "garbage":
				g := make([]byte, 24)
				rng.Read(g)
				x.SendRaw(g)
			case "sub-first":
				x.Send(&mqtt.Subscribe{MessageID: 1, Subscriptions: []mqtt.TopicQOSTuple{{Topic: []byte(w.key("kAll") + "/stranger/")}}})
				x.Barrier(stepTimeout)
			case "pub-first":
				x.Send(&mqtt.Publish{Header: mqtt.Header{QOS: 1}, MessageID: 1, Topic: []byte(w.key("kAll") + "/stranger/"), Payload: []byte("x")})
				x.Barrier(stepTimeout)
			case "will-deep-24", "will-deep-40", "will-long":
				// a session whose last will goes to a channel of very many levels / a very long level (the will is
				// authorized and published when the connection is torn down)
				topic := w.key("kBranch") + "/stranger/" + strings.Repeat("d/", map[string]int{"will-deep-24": 23, "will-deep-40": 39, "will-long": 1}[a.Cls])
				if a.Cls == "will-long" {
					topic = w.key("kBranch") + "/stranger/" + strings.Repeat("L", 30000) + "/"
				}
				x.Send(&mqtt.Connect{ClientID: []byte("stranger"), WillFlag: true, WillTopic: []byte(topic), WillMessage: []byte("last words")})
				x.Barrier(stepTimeout)
			}
			x.C.Close()
			if !x.WaitServerClosed(stepTimeout) {
				return nil, fmt.Errorf("stranger %s: the broker did not finish closing the connection (hang)", a.Cls)
			}
			x.Closed = true
		case "restart":
			// stop the broker (every connection has ended), start a new one on the same directory
			f.close()
			nf, err := newFabricWith(nb, mode, licVer, storage, surveyed, restartDir, standalone)
			if err != nil {
				// "the store always reopens": a broker that cannot start on its own directory is a verdict of C15, not of this step
				return nil, fmt.Errorf("restart: %v", err)
			}
			f = nf
			b = f.bs["b1"]
			w.b, w.f = b, f
		case "cluster":
			ev["panic"] = clusterHostile(b, a.Fn, a.Idx, ev)
		case "hostile":
			if strings.HasPrefix(a.Cls, "sub-last-") {
				isSub = a.C
			}
			closed, err := w.hostile(c, a.Cls, rng)
			if err != nil {
				return nil, err
			}
			ev["closed"] = closed
			if closed {
				closedByHostile[a.C] = true
				c.Closed = true
				c.C.Close()
			}
		default:
			return nil, fmt.Errorf("unknown action %q", a.N)
		}
		out, err := w.collect(a.C, isSub)
		if err != nil {
			if a.N == "hostile" {
				// after a hostile request some connection does not get a PINGRESP within the step timeout
				return nil, fmt.Errorf("step %s: %v: the broker stopped serving (hang)", raw, err)
			}
			return nil, fmt.Errorf("step %s: %v", raw, err)
		}
		ev["out"] = out
		tc := 0
		for _, n := range f.names {
			tc += directEntries(f.bs[n])
		}
		ev["tcount"] = tc
		if f.multi() {
			ev["routes"] = f.routes(b.Lic.Contract())
		}
		if storage != "noop" && !f.survey && (a.N == "pub" || a.N == "end" || a.N == "restart") { // (a surveying store's query also returns the peers' messages)
			if st := w.storedMessages(); st != nil {
				ev["stored"] = st
			}
		}
		tr.Events = append(tr.Events, core.Ev(ev))
		if EventSink != nil {
			EventSink(label, tr.Events[len(tr.Events)-1])
		}
	}
	return tr, nil
}

// storedMessages reads every broker's message store back through its own query interface: [channel words, payload, ttl].
func (w *world) storedMessages() (out map[string][][]any) {
	out = map[string][][]any{}
	defer func() {
		if r := recover(); r != nil {
			// the store's own query panicked under the harness' probe: no read-back for this step (verdicts come from
			// what clients observe)
			out = nil
		}
	}()
	for _, bn := range w.f.names {
		b := w.f.bs[bn]
		seen := map[string]bool{}
		list := [][]any{}
		firsts := []string{"a", "b", "x", "y"}
		if w.rename != nil {
			firsts = []string{"presence", "query", "share", "emitter"}
		}
		for _, first := range firsts { // the channels of the model (hostile requests use first levels of their own)
			ssid := message.NewSsid(b.Lic.Contract(), []uint32{hash.OfString(first)})
			fr, err := b.Svc.VerifStorage().Query(ssid, time.Unix(0, 0), time.Unix(0, 0), nil, 10000)
			if err != nil {
				continue
			}
			for _, m := range fr {
				if seen[string(m.ID)] {
					continue
				}
				seen[string(m.ID)] = true
				list = append(list, []any{w.words(string(m.Channel)), abbrev(string(m.Payload)), m.TTL})
			}
		}
		sort.Slice(list, func(i, j int) bool { return fmt.Sprint(list[i]) < fmt.Sprint(list[j]) })
		out[bn] = list
	}
	return out
}

// ---------------------------------------------------------------------------------------------

func mcCfg(mode, fam string, clients string, maxOps, maxStore int, gen string, small bool) string {
	sm := "FALSE"
	if small {
		sm = "TRUE"
	}
	return fmt.Sprintf("CONSTANTS\n Mode = %q\n Clients = %s\n KeyPerms <- StdKeyPerms\n Home <- HomeMap\n NB = 1\n Surveyed = FALSE\n Fam = %q\n MaxOps = %d\n MaxStore = %d\n Gen = %q\n Small = "+sm+"\nINIT MCInit\nNEXT MCNext\nVIEW View\nINVARIANTS TrieIsHeld NothingLeftBehind ClosedIsSilent DeliveriesJustified Dump\n",
		mode, clients, fam, maxOps, maxStore, gen)
}

func simCfg(mode, fam string, maxOps int) string { return simCfgN(mode, fam, maxOps, 1) }

func simCfgN(mode, fam string, maxOps, nb int) string {
	return fmt.Sprintf("CONSTANTS\n Mode = %q\n Clients = {\"c1\",\"c2\",\"c3\"}\n KeyPerms <- StdKeyPerms\n Home <- HomeMap\n NB = "+fmt.Sprint(nb)+"\n Surveyed = FALSE\n Fam = %q\n MaxOps = %d\n MaxStore = 6\n Gen = \"sim\"\n Small = FALSE\nINIT MCInit\nNEXT MCNext\nINVARIANTS TrieIsHeld NothingLeftBehind ClosedIsSilent DeliveriesJustified Dump\n",
		mode, fam, maxOps)
}

func traceCfg(mode string) string { return traceCfgN(mode, 1, false) }

// traceCfgN: nb brokers (clients placed by Session!StdHome); surveyed = the presence survey reaches the peers.
func traceCfgN(mode string, nb int, surveyed bool) string {
	sv := "FALSE"
	if surveyed {
		sv = "TRUE"
	}
	return fmt.Sprintf("CONSTANTS\n Mode = %q\n Clients = {\"c1\",\"c2\",\"c3\"}\n KeyPerms <- StdKeyPerms\n Home <- HomeMap\n NB = "+fmt.Sprint(nb)+"\n Surveyed = "+sv+"\nINIT TraceInit\nNEXT TraceNext\nCONSTRAINT MarkC\nINVARIANT TraceInv\nPOSTCONDITION AllConsumed\nCHECK_DEADLOCK FALSE\n", mode)
}

// Simulate asks TLC for random behaviours of a family.
func Simulate(c *core.Ctx, mode, fam string, num, depth int, rng *rand.Rand) [][]json.RawMessage {
	return SimulateN(c, mode, fam, num, depth, 1, rng)
}

// SimulateN: behaviours of clients spread over nb brokers.
func SimulateN(c *core.Ctx, mode, fam string, num, depth, nb int, rng *rand.Rand) [][]json.RawMessage {
	var lines []string
	r, err := tlc.Run(tlc.Opts{SpecDir: core.SpecDir(), Module: "MC_Session", Cfg: simCfgN(mode, fam, depth, nb), Workers: 1,
		SimNum: num, SimDepth: depth + 1, Seed: c.Seed + int64(len(fam)), OnTag: func(tag, js string) {
			if tag == "BEH" {
				lines = append(lines, strings.TrimSuffix(strings.TrimSpace(js), "]"))
			}
		}})
	if err != nil || r.Violated != "" || r.ErrText != "" || r.TimedOut {
		core.Fatalf("session simulation (%s, %s) failed: %v %s\n%s", mode, fam, err, r.Brief(), core.Tail(r.Out, 2000))
	}
	out := core.Behaviours(lines, num, rng)
	c.Add("simulated_behaviours", int64(len(out)))
	return out
}

// Plan describes one property's use of the session model.
type Plan struct {
	Fam        string
	What       string
	Rule       string
	Nontrivial func(t *core.Trace) bool
	Storage    string
	EdgeOps    int // MaxOps of the reduced-alphabet exhaustive export (thorough; quick uses one less)
	QuickOps   int // MaxOps of the full-alphabet invariant check (quick; thorough uses one more)
	Hammer     int // concurrent sessions per matcher (quick; thorough 6x)
}

// RunFamily is the common body of C02 / C07 / C08 / C18.
func RunFamily(c *core.Ctx, p Plan) {
	c.Level = "model_checking"
	rng := rand.New(rand.NewSource(c.Seed))
	modes := []string{"emitter", "mqtt"}
	maxOps, num, depth, edgeOps := p.QuickOps, 120, 18, p.EdgeOps-1
	if !c.Quick() {
		maxOps, num, depth, edgeOps = p.QuickOps+1, 500, 24, p.EdgeOps
	}
	type job struct {
		mode string
		walk []json.RawMessage
		i    int
	}
	var jobs []job
	for _, mode := range modes {
		// design level: exhaustive over the family's request alphabet, 2 clients
		c.ModelCheck("MC_Session", mcCfg(mode, p.Fam, `{"c1","c2"}`, maxOps, 2, "none", false), tlc.Opts{})
		// every edge of the state graph of a reduced alphabet, as covering walks
		g := core.NewGraph()
		g.IsSet = func(path []string) bool {
			if len(path) == 0 {
				return false
			}
			return (len(path) == 1 && path[0] == "trie") || (len(path) == 2 && (path[0] == "held" || path[0] == "links"))
		}
		c.ModelCheck("MC_Session", mcCfg(mode, p.Fam, `{"c1","c2"}`, edgeOps, 2, "edges", true), tlc.Opts{OnTag: func(tag, js string) {
			if tag == "EDGE" {
				if err := g.AddJSON(js); err != nil {
					core.Fatalf("EDGE: %v", err)
				}
			}
		}})
		initKey := `{"conn":{"c1":"new","c2":"new"},"held":{"c1":[],"c2":[]},"trie":[],"links":{"c1":[],"c2":[]},"store":{"b1":[]},"will":{"c1":{"on":false},"c2":{"on":false}}}`
		maxWalks := 2000
		if c.Quick() {
			maxWalks = 250
		}
		walks, covered, unreach := g.WalksN(g.Key(initKey), 40, rng, 0.3, maxWalks)
		if unreach > 0 || covered == 0 {
			core.Fatalf("session graph (%s): %d edges unreachable from init, %d covered (state key mismatch?)", p.Fam, unreach, covered)
		}
		c.Add("edges_exported", int64(g.Edges))
		if maxW := 250; c.Quick() && len(walks) > maxW {
			rng.Shuffle(len(walks), func(i, j int) { walks[i], walks[j] = walks[j], walks[i] })
			walks = walks[:maxW]
		} else if len(walks) > 2000 {
			rng.Shuffle(len(walks), func(i, j int) { walks[i], walks[j] = walks[j], walks[i] })
			walks = walks[:2000]
		}
		core.Logf("session %s/%s: %d edges exported, %d walks replayed", p.Fam, mode, g.Edges, len(walks))
		c.Add("graph_walks_replayed", int64(len(walks)))
		for i, w := range walks {
			jobs = append(jobs, job{mode, w, 200000 + i})
		}
		for i, w := range Simulate(c, mode, p.Fam, num, depth, rng) {
			jobs = append(jobs, job{mode, w, i})
		}
		for i, w := range Simulate(c, mode, "all", num/3, depth, rng) {
			jobs = append(jobs, job{mode, w, 100000 + i})
		}
		if p.Fam == "ending" || p.Fam == "presence" {
			// mass departure in front of a watcher that has stopped reading: c1 holds 130 subscriptions below the watched
			// channel (more than the presence queue holds), the watcher's socket window is full while c1's connection ends
			mk := func(format string, a ...any) json.RawMessage { return json.RawMessage(fmt.Sprintf(format, a...)) }
			watch, depth2 := `["a"]`, false
			if mode == "mqtt" {
				watch, depth2 = `["a","+"]`, true // the mqtt matcher matches same-depth only
			}
			_ = depth2
			for vi, how := range []string{"drop", "disconnect"} {
				w := []json.RawMessage{
					mk(`{"n":"connect","c":"c1","u":"u-c1","will":{"on":true,"k":"kAll","w":["a","will"],"syn":"ok","retain":false,"p":"will"}}`),
					mk(`{"n":"connect","c":"c2","u":"u-c2","will":{"on":false}}`),
					mk(`{"n":"connect","c":"c3","u":"u-c3","will":{"on":false}}`),
					mk(`{"n":"presence","c":"c3","k":"kAll","w":%s,"syn":"ok","status":false,"chg":"on"}`, watch),
					mk(`{"n":"sub","c":"c2","k":"kAll","w":["a","will"],"syn":"ok","last":0,"win":"none"}`),
				}
				for i := 0; i < 130; i++ {
					w = append(w, mk(`{"n":"sub","c":"c1","k":"kAll","w":["a","s%d"],"syn":"ok","last":0,"win":"none"}`, i))
				}
				w = append(w, mk(`{"n":"end","c":"c1","how":%q,"stall":"c3"}`, how),
					mk(`{"n":"presence","c":"c2","k":"kAll","w":["a","s7"],"syn":"ok","status":true,"chg":"none"}`),
					mk(`{"n":"pub","c":"c2","k":"kAll","w":["a","s7"],"syn":"ok","me0":false,"ttl":-1,"via":"","retain":false,"qos":1,"p":"after"}`))
				jobs = append(jobs, job{mode, w, 500000 + vi})
			}
		}
		if p.Fam == "retain" {
			// restart contexts (the simulation reaches a restart rarely: every client must have ended first): messages
			// stored by c1 (retain / ttl / both, nested channels), c1 ends, the broker restarts on its directory, c2 subscribes
			mk := func(format string, a ...any) json.RawMessage { return json.RawMessage(fmt.Sprintf(format, a...)) }
			for vi, variant := range [][2]any{{true, -1}, {false, 3600}, {true, 7776000}, {false, 7776000}} {
				for fi, filt := range []string{`["a"]`, `["a","b"]`, `["a","+"]`} {
					if filt == `["a","+"]` && mode != "mqtt" && vi > 1 {
						continue
					}
					w := []json.RawMessage{
						mk(`{"n":"connect","c":"c1","u":"u-c1","will":{"on":false}}`),
						mk(`{"n":"pub","c":"c1","k":"kAll","w":["a"],"syn":"ok","me0":false,"ttl":%v,"via":"","retain":%v,"qos":1,"p":"m1"}`, variant[1], variant[0]),
						mk(`{"n":"pub","c":"c1","k":"kAll","w":["a","b"],"syn":"ok","me0":false,"ttl":%v,"via":"","retain":%v,"qos":1,"p":"m2"}`, variant[1], variant[0]),
						mk(`{"n":"pub","c":"c1","k":"kNoSL","w":["a","b"],"syn":"ok","me0":false,"ttl":3600,"via":"","retain":true,"qos":1,"p":"m3"}`),
						mk(`{"n":"end","c":"c1","how":"drop"}`),
						mk(`{"n":"restart"}`),
						mk(`{"n":"connect","c":"c2","u":"u-c2","will":{"on":false}}`),
						mk(`{"n":"sub","c":"c2","k":"kAll","w":%s,"syn":"ok","last":2,"win":"none"}`, filt),
						mk(`{"n":"history","c":"c2","k":"kAll","w":["a"],"syn":"ok","last":1000,"win":"none"}`),
						mk(`{"n":"sub","c":"c2","k":"kNoSL","w":["a"],"syn":"ok","last":-1,"win":"none"}`),
						mk(`{"n":"pub","c":"c2","k":"kAll","w":["a","b"],"syn":"ok","me0":false,"ttl":3600,"via":"","retain":false,"qos":1,"p":"m4"}`),
						mk(`{"n":"connect","c":"c3","u":"u-c3","will":{"on":false}}`),
						mk(`{"n":"sub","c":"c3","k":"kAll","w":["a"],"syn":"ok","last":1000,"win":"none"}`),
					}
					jobs = append(jobs, job{mode, w, 400000 + vi*10 + fi})
				}
			}
		}
		if p.Fam == "ending" {
			// cut sweep ("each byte offset inside a packet"): sessions that end with a cut are repeated with the cut after
			// every byte of a SUBSCRIBE and of a retained PUBLISH
			budget, swept := 1, 0
			if !c.Quick() {
				budget = 12
			}
			for _, j := range append([]job{}, jobs...) {
				if j.mode != mode || budget == 0 {
					continue
				}
				last := -1
				for i, raw := range j.walk {
					if bytes.Contains(raw, []byte(`"how":"cut"`)) {
						last = i
					}
				}
				if last < 2 {
					continue
				}
				budget--
				pks := []string{"sub", "pub"}
				if c.Quick() { // quick: every offset of one packet kind per matcher
					if mode == "mqtt" {
						pks = []string{"pub"}
					} else {
						pks = []string{"sub"}
					}
				}
				for _, pk := range pks {
					for off := 1; off <= 70; off++ {
						w := append([]json.RawMessage{}, j.walk...)
						w[last] = json.RawMessage(strings.TrimSuffix(string(w[last]), "}") + fmt.Sprintf(`,"cut_pk":%q,"cut_off":%d}`, pk, off))
						jobs = append(jobs, job{mode, w, 300000 + swept})
						swept++
					}
				}
			}
			c.Add("cut_sweep_sessions", int64(swept))
		}
	}
	traces := map[string][]*core.Trace{}
	var mu sync.Mutex
	var wg sync.WaitGroup
	sem := make(chan struct{}, 8)
	var machinery []string
	for ji, j := range jobs {
		wg.Add(1)
		sem <- struct{}{}
		go func(ji int, j job) {
			defer wg.Done()
			defer func() { <-sem }()
			lic := 1 + (ji+int(c.Seed))%3
			var t *core.Trace
			var err error
			if ji%4 == 3 {
				// every fourth behaviour on a broker configured without a cluster section
				t, err = ReplayStandalone(j.mode, lic, p.Storage, j.walk, fmt.Sprintf("%s-%s-%d-lic%d-standalone", p.Fam, j.mode, j.i, lic), rand.New(rand.NewSource(c.Seed+int64(ji))))
			} else {
				t, err = Replay(j.mode, lic, p.Storage, j.walk, fmt.Sprintf("%s-%s-%d-lic%d", p.Fam, j.mode, j.i, lic), rand.New(rand.NewSource(c.Seed+int64(ji))))
			}
			mu.Lock()
			defer mu.Unlock()
			if err != nil {
				machinery = append(machinery, err.Error())
				return
			}
			traces[j.mode] = append(traces[j.mode], t)
		}(ji, j)
	}
	wg.Wait()
	if len(machinery) > 0 {
		// a dead driver is never a verdict; but a broker that hangs or refuses to close is reported by C09's check
		core.Fatalf("%d behaviours could not be replayed, first: %s", len(machinery), machinery[0])
	}
	nontrivial := int64(0)
	for _, mode := range modes {
		ts := traces[mode]
		sort.Slice(ts, func(i, j int) bool { return ts[i].Label < ts[j].Label })
		for _, t := range ts {
			c.Add("evaluations", int64(len(t.Events)-1))
			if p.Nontrivial(t) {
				nontrivial++
			}
		}
		if len(ts) > 0 {
			t := ts[rng.Intn(len(ts))]
			c.Sample(map[string]any{"label": t.Label, "events_head": headEvents(t, 6)})
		}
		rej := c.ValidateTraces(ts, core.ValidateOpts{Module: "Session_Trace", Cfg: traceCfg(mode), ChunkSize: 2500})
		c.ReportRejections(rej, p.What+" ("+mode+" matcher)")
	}
	// concurrent clients: requests of different connections really overlap (random mixes, hand-overs of one branch
	// between connections, a connection ending in the middle), the state they leave is audited sequentially
	if p.Hammer > 0 {
		n, rounds := p.Hammer, 100
		if !c.Quick() {
			n, rounds = 3*p.Hammer, 250
		}
		HammerStage(c, p.What, n, rounds, 1)
	}
	if p.Fam == "retain" {
		RetainStage(c, p.What)
	}
	if p.Fam == "retain" && !c.Quick() {
		// history across brokers: two brokers whose stores answer each other's surveys (emitter matcher; with the mqtt
		// matcher no survey is ever answered and the reply stays local)
		ClusterStage(c, p.What, 2, true, []string{"retain"}, 25, 14)
	}
	if p.Fam == "presence" && !c.Quick() {
		// two brokers whose surveyors are started and told they have a peer: a status request then really surveys the
		// cluster (and, no handler being registered for presence queries, still lists the requester's broker only)
		ClusterStage(c, p.What, 2, true, []string{"presence"}, 25, 14)
	}
	c.Set("distinct_nontrivial", nontrivial)
	c.Set("rule", p.Rule)
	c.Assume = append(c.Assume,
		"in the replayed behaviours requests of different clients are issued one at a time; overlapping requests are exercised by the concurrent-clients stage, whose oracle is the state every interleaving must end in",
		"keys are all-covering (`#/`) keys of the broker's contract; targets/expiry/contracts are C03's subject",
		"a PINGREQ/PINGRESP round trip on every connection and a sentinel through the presence queue delimit what was received during a step")
	c.Finish()
}

func headEvents(t *core.Trace, n int) []json.RawMessage {
	var out []json.RawMessage
	for i, e := range t.Events {
		if i >= n {
			break
		}
		out = append(out, json.RawMessage(e))
	}
	return out
}

func eventsOf(t *core.Trace) []map[string]any {
	var out []map[string]any
	for _, e := range t.Events {
		m := map[string]any{}
		json.Unmarshal(e, &m)
		out = append(out, m)
	}
	return out
}

func countPkts(t *core.Trace, typ string) int {
	n := 0
	for _, ev := range eventsOf(t) {
		o, _ := ev["out"].(map[string]any)
		for _, v := range o {
			r, _ := v.(map[string]any)
			for _, k := range []string{"s", "a"} {
				l, _ := r[k].([]any)
				for _, p := range l {
					if pm, ok := p.(map[string]any); ok && pm["t"] == typ {
						n++
					}
				}
			}
		}
	}
	return n
}

// RunC02 is the C02 check.
func RunC02(c *core.Ctx) {
	RunFamily(c, Plan{Fam: "pubsub", EdgeOps: 4, QuickOps: 4, Hammer: 4, What: "clients did not receive exactly what their acknowledged subscriptions entitle them to",
		Rule: "TLC-simulated request sequences (3 clients; collision families a/b-b/a, a/a-b/b, x/x/y-y; wildcards; links; me=0; failing requests) replayed on a real broker; non-trivial = at least one message delivered and at least one error reply or undelivered publish in the same behaviour; distinct by TLC seed/behaviour",
		Nontrivial: func(t *core.Trace) bool {
			return countPkts(t, "pub") > 0 && (countPkts(t, "err") > 0 || countPkts(t, "puback") > countPkts(t, "pub"))
		}})
}

// RunC07 is the C07 check.
func RunC07(c *core.Ctx) {
	RunFamily(c, Plan{Fam: "retain", EdgeOps: 8, QuickOps: 5, What: "stored / replayed messages differ from what retain, ttl, store and load permissions and the last/window options prescribe",
		Rule: "TLC-simulated publishes (retain/ttl/store permission) and later subscribes (load permission, last in {absent,0,1,2,1000}, from/until) replayed on a real broker with the badger-backed store; non-trivial = at least one non-empty replay before a SUBACK and one subscribe that replays nothing",
		Nontrivial: func(t *core.Trace) bool {
			return countPkts(t, "replay") > 0 && countPkts(t, "suback") > countPkts(t, "replay")
		}})
}

// RunC08 is the C08 check.
func RunC08(c *core.Ctx) {
	RunFamily(c, Plan{Fam: "ending", EdgeOps: 4, QuickOps: 3, Hammer: 4, What: "a connection that ended left subscriptions behind, or its last will / presence departure was wrong",
		Rule: "TLC-simulated sessions (ordinary, link-created and presence-change subscriptions; wills with good, read-only, undecryptable keys, wildcard and malformed will topics) ended by DISCONNECT, abrupt close, a cut inside a packet at a seeded byte offset, or a malformed packet; non-trivial = at least one ending of a connection that held a subscription or a will",
		Nontrivial: func(t *core.Trace) bool {
			for _, ev := range eventsOf(t) {
				if ev["e"] == "end" {
					return true
				}
			}
			return false
		}})
}

// RunC18 is the C18 check.
func RunC18(c *core.Ctx) {
	RunFamily(c, Plan{Fam: "presence", EdgeOps: 8, QuickOps: 5, Hammer: 3, What: "presence status or change notifications differ from the subscriptions actually held",
		Rule:       "TLC-simulated histories of subscribe/unsubscribe/disconnect and presence requests (status and/or changes, exact and parent channels); non-trivial = at least one notification received by a watcher and one non-empty status reply",
		Nontrivial: func(t *core.Trace) bool { return countPkts(t, "pres") > 0 }})
}

// SequentialStage replays TLC-simulated sessions of one family on a real broker and validates them (used by checks
// whose own subject is a part of the broker - the index, the store - to cover the request path in front of it).
func SequentialStage(c *core.Ctx, what, fam string, num, depth int) {
	rng := rand.New(rand.NewSource(c.Seed + 99))
	for _, mode := range []string{"emitter", "mqtt"} {
		var ts []*core.Trace
		for i, w := range Simulate(c, mode, fam, num, depth, rng) {
			lic := 1 + (i+int(c.Seed))%3
			t, err := Replay(mode, lic, "inmemory", w, fmt.Sprintf("seq-%s-%s-%d-lic%d", fam, mode, i, lic), rand.New(rand.NewSource(c.Seed+int64(i))))
			if err != nil {
				core.Fatalf("session behaviour could not be replayed: %v", err)
			}
			c.Add("evaluations", int64(len(t.Events)-1))
			ts = append(ts, t)
		}
		rej := c.ValidateTraces(ts, core.ValidateOpts{Module: "Session_Trace", Cfg: traceCfg(mode), ChunkSize: 2500})
		c.ReportRejections(rej, what+" ("+mode+" matcher)")
	}
}
