package crdt

// Concurrent use of one replica (R -> V): in the broker, local adds / removes (connection goroutines), merges (the
// gossip goroutine) and look-ups run at the same time on one crdt.Map.  Whatever the interleaving, the replica must
// end up holding the join of what it had, what was merged and what the local operations wrote; a local operation's
// clock reading is only known to lie in an interval, so the final times are checked against the interval bounds
// (Crdt_Trace!TrConc).  The clock is a strictly increasing counter.

import (
	"fmt"
	"math/rand"
	"os"
	"sort"
	"sync"
	"sync/atomic"

	rc "github.com/emitter-io/emitter/internal/event/crdt"
	"github.com/emitter-io/emitter/verif/core"
)

type localOp struct {
	K    string `json:"k"`
	Kind string `json:"kind"`
	Lo   int64  `json:"lo"`
	Hi   int64  `json:"hi"`
}

var concSink int64

// concurrentTrace runs `rounds` concurrent rounds on one replica of the given kind.
func concurrentTrace(kind string, keys []string, rounds int, rng *rand.Rand, label string) *core.Trace {
	clockMu.Lock()
	defer clockMu.Unlock()
	saved := rc.Now
	defer func() { rc.Now = saved }()
	var clk int64 = 1000
	rc.Now = func() int64 { return atomic.AddInt64(&clk, 1) }
	var m rc.Map
	var cleanup func()
	switch kind {
	case "volatile":
		m, cleanup = rc.NewVolatile(), func() {}
	case "durable-mem":
		d := rc.NewDurable("")
		m, cleanup = d, func() { d.Close() }
	default:
		dir, err := os.MkdirTemp("", "vcrdtc-")
		if err != nil {
			core.Fatalf("tempdir: %v", err)
		}
		d := rc.NewDurable(dir + "/r.db")
		m, cleanup = d, func() { d.Close(); os.RemoveAll(dir) }
	}
	defer cleanup()
	others := map[string]rc.Map{"r2": rc.NewVolatile(), "r3": rc.NewVolatile()}
	observe := func() obs {
		o := obs{V: map[string]map[string]val{}, All: map[string][]string{}, Live: map[string][]string{}}
		for _, r := range replicas {
			mp := others[r]
			if r == "r1" {
				mp = m
			}
			o.V[r] = map[string]val{}
			for _, k := range keys {
				v := mp.Get(k)
				o.V[r][k] = val{v.AddTime(), v.DelTime(), mp.Has(k)}
			}
			o.All[r], o.Live[r] = []string{}, []string{}
			mp.Range(nil, true, func(k string, v rc.Value) bool { o.All[r] = append(o.All[r], k); return true })
			mp.Range(nil, false, func(k string, v rc.Value) bool { o.Live[r] = append(o.Live[r], k); return true })
			sort.Strings(o.All[r])
			sort.Strings(o.Live[r])
		}
		return o
	}
	tr := &core.Trace{Label: label}
	tr.Events = append(tr.Events, core.Ev(map[string]any{"e": "reset", "kind": kind}))
	for r := 0; r < rounds; r++ {
		// payloads written by faster and slower clocks than ours
		now := atomic.LoadInt64(&clk)
		np := 1 + rng.Intn(2)
		var merged []map[string]ad
		var objs []*rc.Volatile
		for i := 0; i < np; i++ {
			p := map[string]ad{}
			items := map[string]rc.Value{}
			for _, k := range keys {
				p[k] = ad{}
			}
			k := keys[rng.Intn(len(keys))]
			x := ad{}
			if rng.Intn(2) == 0 {
				x.A = now + int64(rng.Intn(40)) - 10
			} else {
				x.D = now + int64(rng.Intn(40)) - 10
			}
			if rng.Intn(4) == 0 {
				x.A, x.D = now+int64(rng.Intn(40)), now+int64(rng.Intn(40))
			}
			p[k] = x
			items[k] = rc.VerifValue(x.A, x.D, []byte("v"))
			merged = append(merged, p)
			objs = append(objs, rc.VerifNewVolatile(items))
		}
		nl := 1 + rng.Intn(2)
		locals := make([]localOp, nl)
		for i := range locals {
			locals[i] = localOp{K: keys[rng.Intn(len(keys))], Kind: []string{"a", "d"}[rng.Intn(2)]}
		}
		start := make(chan struct{})
		var wg sync.WaitGroup
		skew := (r%64 - 32) * 30
		spin := func(n int) {
			for i := 0; i < n; i++ {
				concSink++
			}
		}
		var rwg sync.WaitGroup
		wg.Add(2)
		rwg.Add(1)
		go func() { // local operations
			defer wg.Done()
			<-start
			spin(skew)
			for i := range locals {
				locals[i].Lo = atomic.LoadInt64(&clk)
				if locals[i].Kind == "a" {
					m.Add(locals[i].K, []byte("v"))
				} else {
					m.Del(locals[i].K)
				}
				locals[i].Hi = atomic.LoadInt64(&clk)
			}
		}()
		// two gossip goroutines (payloads arrive over several links): the payloads are dealt between them, and one of
		// them is delivered on both links
		dup := rng.Intn(2) == 0
		if dup {
			src := merged[0]
			cp := map[string]ad{}
			items := map[string]rc.Value{}
			for k, v := range src {
				cp[k] = v
				if v.A != 0 || v.D != 0 {
					items[k] = rc.VerifValue(v.A, v.D, []byte("v"))
				}
			}
			merged = append(merged, cp)
			objs = append(objs, rc.VerifNewVolatile(items))
			if last := len(objs) - 1; last%2 == 0 && last > 1 {
				// the copy must travel on the other link than the original (index 0)
				merged[1], merged[last] = merged[last], merged[1]
				objs[1], objs[last] = objs[last], objs[1]
			}
		}
		deltas := make([]map[string]ad, len(objs))
		merger := func(from, spinN int) {
			defer wg.Done()
			<-start
			spin(spinN)
			for i := from; i < len(objs); i += 2 {
				m.Merge(objs[i])
				d := map[string]ad{}
				for _, k := range keys {
					d[k] = ad{}
				}
				for k, v := range objs[i].VerifItems() {
					d[k] = ad{v.AddTime(), v.DelTime()}
				}
				deltas[i] = d
			}
		}
		wg.Add(1)
		go merger(0, -skew)
		go merger(1, -skew/2)
		stop := make(chan struct{})
		go func() { // look-ups (the routine ban check, presence)
			defer rwg.Done()
			<-start
			for {
				select {
				case <-stop:
					return
				default:
					for _, k := range keys {
						m.Has(k)
						m.Get(k)
					}
				}
			}
		}()
		close(start)
		wg.Wait()
		close(stop)
		rwg.Wait()
		tr.Events = append(tr.Events, core.Ev(map[string]any{"e": "conc", "r": "r1", "merged": merged, "deltas": deltas, "locals": locals, "obs": observe()}))
	}
	return tr
}

// ConcurrentStage validates concurrent rounds on every map implementation.
func ConcurrentStage(c *core.Ctx, what string, keys []string, keysTLA string, maxTime int) {
	rng := rand.New(rand.NewSource(c.Seed + 31))
	rounds := 400
	if !c.Quick() {
		rounds = 4000
	}
	var ts []*core.Trace
	for _, kind := range []string{"volatile", "durable-mem", "durable-disk"} {
		t := concurrentTrace(kind, keys, rounds, rng, fmt.Sprintf("conc-%s", kind))
		c.Add("evaluations", int64(len(t.Events)-1))
		c.Add("concurrent_rounds", int64(rounds))
		ts = append(ts, t)
	}
	rej := c.ValidateTraces(ts, core.ValidateOpts{Module: "Crdt_Trace", Cfg: traceCfg(keysTLA, maxTime), ChunkSize: 3000})
	c.ReportRejections(rej, what+" (local operations, merges and look-ups running concurrently on one replica)")
}
