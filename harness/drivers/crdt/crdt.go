// Package crdt binds spec/Crdt.tla to internal/event/crdt (Volatile, Durable) and internal/event.State
// (properties C04 and the delta half of C13).
package crdt

import (
	"encoding/json"
	"fmt"
	"math/rand"
	"os"
	"sort"
	"strings"
	"sync"

	"github.com/emitter-io/emitter/internal/event"
	rc "github.com/emitter-io/emitter/internal/event/crdt"
	"github.com/emitter-io/emitter/internal/message"
	"github.com/emitter-io/emitter/internal/security"
	"github.com/emitter-io/emitter/verif/core"
	"github.com/emitter-io/emitter/verif/tlc"
	"github.com/kelindar/binary"
)

// crdt.Now is a package-level clock: replays that drive it are serialised.
var clockMu sync.Mutex

var replicas = []string{"r1", "r2", "r3"}

type action struct {
	N     string `json:"n"`
	R     string `json:"r"`
	K     string `json:"k"`
	T     int64  `json:"t"`
	Op    int64  `json:"op"`
	I     int    `json:"i"`
	Relay bool   `json:"relay"`
}

type val struct {
	A   int64 `json:"a"`
	D   int64 `json:"d"`
	Has bool  `json:"has"`
}
type ad struct {
	A int64 `json:"a"`
	D int64 `json:"d"`
}
type obs struct {
	V    map[string]map[string]val `json:"v"`
	All  map[string][]string       `json:"all"`
	Live map[string][]string       `json:"live"`
}

// impl is one implementation of the replicated map under test.
type impl interface {
	add(r, k string, t, op int64)
	del(r, k string, t, op int64)
	snap(r string)
	deliver(i int, r string, relay bool) (delta map[string]ad, isNil bool)
	observe(keys []string) obs
	close()
}

// timeScale stretches the model's clock: model time t is the real time t * timeScale (replays run one at a time under
// clockMu).  1 = the model's small integers as they are; 600e9 = ten minutes apart in nanoseconds, so replicas whose
// clocks have not advanced yet see updates "from the future" (skewed clocks are part of the quantifier).
var timeScale int64 = 1

func setClock(ts ...int64) {
	i := 0
	rc.Now = func() int64 {
		t := ts[len(ts)-1]
		if i < len(ts) {
			t = ts[i]
		}
		i++
		return t * timeScale
	}
}

// us converts a real time back to model time; a time that is not a model time at all reads as -1.
func us(x int64) int64 {
	if timeScale == 1 {
		return x
	}
	if x%timeScale != 0 {
		return -1
	}
	return x / timeScale
}

// ---------------------------------------------------------------------------------------------
// kind A / B: crdt.Map replicas (Volatile or Durable), payloads are *crdt.Volatile objects

type mapMsg struct {
	obj      *rc.Volatile        // the live object (used un-copied on its first delivery, as the gossip library does in-process)
	pristine map[string]rc.Value // content at creation time, for later (duplicate) deliveries
	used     bool
}

type mapImpl struct {
	reps   map[string]rc.Map
	msgs   []*mapMsg
	hop    bool // TRUE: every delivery goes through a binary encode/decode hop
	dirs   []string
	closer []func()
}

func newMapImpl(kind string, hop bool) *mapImpl {
	m := &mapImpl{reps: map[string]rc.Map{}, hop: hop}
	for i, r := range replicas {
		switch {
		case kind == "volatile":
			m.reps[r] = rc.NewVolatile()
		case kind == "durable" && i == 0:
			dir, err := os.MkdirTemp("", "vcrdt-")
			if err != nil {
				core.Fatalf("tempdir: %v", err)
			}
			m.dirs = append(m.dirs, dir)
			d := rc.NewDurable(dir + "/r.db")
			m.reps[r] = d
			m.closer = append(m.closer, func() { d.Close() })
		default:
			d := rc.NewDurable("")
			m.reps[r] = d
			m.closer = append(m.closer, func() { d.Close() })
		}
	}
	return m
}

func (m *mapImpl) close() {
	for _, c := range m.closer {
		c()
	}
	for _, d := range m.dirs {
		os.RemoveAll(d)
	}
}

func cloneItems(in map[string]rc.Value) map[string]rc.Value {
	out := make(map[string]rc.Value, len(in))
	for k, v := range in {
		out[k] = append(rc.Value{}, v...)
	}
	return out
}

func (m *mapImpl) push(items map[string]rc.Value) {
	m.msgs = append(m.msgs, &mapMsg{obj: rc.VerifNewVolatile(items), pristine: cloneItems(items)})
}

func (m *mapImpl) add(r, k string, t, op int64) {
	setClock(t)
	m.reps[r].Add(k, []byte("v"))
	if op > 0 {
		setClock(op)
		o := rc.NewVolatile()
		o.Add(k, []byte("v"))
		m.msgs = append(m.msgs, &mapMsg{obj: o, pristine: o.VerifItems()})
	}
}

func (m *mapImpl) del(r, k string, t, op int64) {
	setClock(t)
	m.reps[r].Del(k)
	if op > 0 {
		setClock(op)
		o := rc.NewVolatile()
		o.Del(k)
		m.msgs = append(m.msgs, &mapMsg{obj: o, pristine: o.VerifItems()})
	}
}

func (m *mapImpl) snap(r string) {
	items := map[string]rc.Value{}
	m.reps[r].Range(nil, true, func(k string, v rc.Value) bool {
		items[k] = append(rc.Value{}, v...)
		return true
	})
	m.push(items)
}

func hopVolatile(v *rc.Volatile) *rc.Volatile {
	b, err := binary.Marshal(map[uint8]rc.Volatile{0: *v})
	if err != nil {
		core.Fatalf("marshal: %v", err)
	}
	out := map[uint8]rc.Volatile{}
	if err := binary.Unmarshal(b, &out); err != nil {
		core.Fatalf("unmarshal: %v", err)
	}
	x := out[0]
	return &x
}

func (m *mapImpl) deliver(i int, r string, relay bool) (map[string]ad, bool) {
	msg := m.msgs[i-1]
	var p *rc.Volatile
	switch {
	case m.hop:
		p = hopVolatile(rc.VerifNewVolatile(cloneItems(msg.pristine)))
	case !msg.used:
		p, msg.used = msg.obj, true
	default:
		p = rc.VerifNewVolatile(cloneItems(msg.pristine))
	}
	m.reps[r].Merge(p)
	delta := map[string]ad{}
	for k, v := range p.VerifItems() {
		delta[k] = ad{us(v.AddTime()), us(v.DelTime())}
	}
	isNil := p.Count() == 0
	if relay && !isNil {
		// the returned delta object itself travels on (in-process relay)
		m.msgs = append(m.msgs, &mapMsg{obj: p, pristine: p.VerifItems()})
	}
	return delta, isNil
}

func (m *mapImpl) observe(keys []string) obs {
	o := obs{V: map[string]map[string]val{}, All: map[string][]string{}, Live: map[string][]string{}}
	for _, r := range replicas {
		mp := m.reps[r]
		o.V[r] = map[string]val{}
		for _, k := range keys {
			v := mp.Get(k)
			o.V[r][k] = val{us(v.AddTime()), us(v.DelTime()), mp.Has(k)}
		}
		o.All[r], o.Live[r] = []string{}, []string{}
		mp.Range(nil, true, func(k string, v rc.Value) bool { o.All[r] = append(o.All[r], k); return true })
		mp.Range(nil, false, func(k string, v rc.Value) bool { o.Live[r] = append(o.Live[r], k); return true })
		sort.Strings(o.All[r])
		sort.Strings(o.Live[r])
	}
	return o
}

// ---------------------------------------------------------------------------------------------
// kind C: event.State replicas; payloads travel as Encode() bytes and come back through DecodeState

type stateImpl struct {
	reps map[string]*event.State
	msgs [][][]byte // every payload is the list of frames Encode produced
	dirs []string
	n    int // inflation: every model key stands for n real events of its kind, all treated alike (n = 1: as is)
}

var events = map[string]event.Event{
	"k1": &event.Subscription{Peer: 1, Conn: security.ID(5), Ssid: message.Ssid{1, 2}, Channel: []byte("a/")},
	"k2": func() event.Event { b := event.Ban("banned-key-0000000000000000000002"); return &b }(),
	"k3": &event.Connection{Peer: 2, Conn: security.ID(7), Username: []byte("u")},
}

// eventsOf lists the real events a model key stands for.
func (s *stateImpl) eventsOf(k string) []event.Event {
	if s.n <= 1 {
		return []event.Event{events[k]}
	}
	out := make([]event.Event, 0, s.n)
	for i := 0; i < s.n; i++ {
		switch k {
		case "k1":
			out = append(out, &event.Subscription{Peer: 1, Conn: security.ID(5 + i), Ssid: message.Ssid{1, 2, uint32(i)}, Channel: []byte("a/")})
		case "k2":
			b := event.Ban(fmt.Sprintf("banned-key-%021d", i))
			out = append(out, &b)
		default:
			out = append(out, &event.Connection{Peer: 2, Conn: security.ID(7 + i), Username: []byte("u")})
		}
	}
	return out
}

func newStateImpl(durable bool) *stateImpl { return newStateImplN(durable, 1) }

func newStateImplN(durable bool, n int) *stateImpl {
	s := &stateImpl{reps: map[string]*event.State{}, n: n}
	for i, r := range replicas {
		switch {
		case !durable:
			s.reps[r] = event.NewState("")
		case i == 0:
			dir, err := os.MkdirTemp("", "vstate-")
			if err != nil {
				core.Fatalf("tempdir: %v", err)
			}
			s.dirs = append(s.dirs, dir)
			s.reps[r] = event.NewState(dir)
		default:
			s.reps[r] = event.NewState(":memory:")
		}
	}
	return s
}

func (s *stateImpl) close() {
	for _, r := range s.reps {
		r.Close()
	}
	for _, d := range s.dirs {
		os.RemoveAll(d)
	}
}

func (s *stateImpl) add(r, k string, t, op int64) {
	setClock(t)
	for _, ev := range s.eventsOf(k) {
		s.reps[r].Add(ev)
	}
	if op > 0 {
		setClock(op)
		o := event.NewState("")
		for _, ev := range s.eventsOf(k) {
			o.Add(ev)
		}
		s.msgs = append(s.msgs, o.Encode())
	}
}

func (s *stateImpl) del(r, k string, t, op int64) {
	setClock(t)
	for _, ev := range s.eventsOf(k) {
		s.reps[r].Del(ev)
	}
	if op > 0 {
		setClock(op)
		o := event.NewState("")
		for _, ev := range s.eventsOf(k) {
			o.Del(ev)
		}
		s.msgs = append(s.msgs, o.Encode())
	}
}

func (s *stateImpl) snap(r string) { s.msgs = append(s.msgs, s.reps[r].Encode()) }

// uniform returns the value all n real events of model key k share in st, or ok = false if they differ.
func (s *stateImpl) uniform(st *event.State, k string) (v rc.Value, has, ok bool) {
	evs := s.eventsOf(k)
	v, has, ok = st.VerifGet(evs[0]), st.Has(evs[0]), true
	for _, ev := range evs[1:] {
		w := st.VerifGet(ev)
		if w.AddTime() != v.AddTime() || w.DelTime() != v.DelTime() || st.Has(ev) != has {
			return v, has, false
		}
	}
	return
}

func (s *stateImpl) deliver(i int, r string, relay bool) (map[string]ad, bool) {
	delta := map[string]ad{}
	var relayed [][]byte
	for _, frame := range s.msgs[i-1] {
		in, err := event.DecodeState(frame)
		if err != nil {
			core.Fatalf("DecodeState of an encoded state failed: %v", err)
		}
		out := s.reps[r].Merge(in)
		if out == nil {
			continue
		}
		ds := out.(*event.State)
		for k := range events {
			if v, _, ok := s.uniform(ds, k); !ok {
				delta[k] = ad{-1, -1} // the events a key stands for were treated differently: never what the model says
			} else if !v.IsZero() {
				x := delta[k]
				if a := us(v.AddTime()); a > x.A || a < 0 {
					x.A = a
				}
				if d := us(v.DelTime()); d > x.D || d < 0 {
					x.D = d
				}
				delta[k] = x
			}
		}
		relayed = append(relayed, ds.Encode()...)
	}
	if len(relayed) == 0 {
		return delta, true
	}
	if relay {
		s.msgs = append(s.msgs, relayed)
	}
	return delta, false
}

func (s *stateImpl) observe(keys []string) obs {
	o := obs{V: map[string]map[string]val{}, All: map[string][]string{}, Live: map[string][]string{}}
	typ := map[string]uint8{"k1": event.VerifTypeSub, "k2": event.VerifTypeBan, "k3": event.VerifTypeConn}
	for _, r := range replicas {
		st := s.reps[r]
		o.V[r] = map[string]val{}
		o.All[r], o.Live[r] = []string{}, []string{}
		for _, k := range keys {
			v, has, ok := s.uniform(st, k)
			if !ok {
				o.V[r][k] = val{-1, -1, false}
				continue
			}
			o.V[r][k] = val{us(v.AddTime()), us(v.DelTime()), has}
			want := map[string]bool{}
			for _, ev := range s.eventsOf(k) {
				want[ev.Key()] = true
			}
			nAll, nLive := 0, 0
			st.VerifSubset(typ[k]).Range(nil, true, func(key string, _ rc.Value) bool {
				if want[key] {
					nAll++
				}
				return true
			})
			st.VerifSubset(typ[k]).Range(nil, false, func(key string, _ rc.Value) bool {
				if want[key] {
					nLive++
				}
				return true
			})
			// all n of them are listed, or none
			if nAll == len(want) {
				o.All[r] = append(o.All[r], k)
			} else if nAll != 0 {
				o.All[r] = append(o.All[r], k+"?partial")
			}
			if nLive == len(want) {
				o.Live[r] = append(o.Live[r], k)
			} else if nLive != 0 {
				o.Live[r] = append(o.Live[r], k+"?partial")
			}
		}
	}
	return o
}

// ---------------------------------------------------------------------------------------------

func newImpl(kind string) impl {
	switch kind {
	case "volatile-inproc":
		return newMapImpl("volatile", false)
	case "volatile-hop":
		return newMapImpl("volatile", true)
	case "durable":
		return newMapImpl("durable", false)
	case "state-volatile":
		return newStateImpl(false)
	case "state-durable":
		return newStateImpl(true)
	case "state-volatile-big":
		// every model key stands for 1100 real events of its kind (payloads of more than a thousand entries per kind)
		return newStateImplN(false, 1100)
	case "state-durable-big":
		return newStateImplN(true, 1100)
	}
	core.Fatalf("unknown impl kind %q", kind)
	return nil
}

// Light halves the replay budget (used when another check shares the run).
var Light bool

// Kinds are the implementations every behaviour is replayed on.
var Kinds = []string{"volatile-inproc", "volatile-hop", "durable", "state-volatile", "state-durable"}

func replay(kind string, keys []string, walk []json.RawMessage, label string) *core.Trace {
	clockMu.Lock()
	defer clockMu.Unlock()
	saved := rc.Now
	defer func() { rc.Now = saved }()
	timeScale = 1
	if strings.HasSuffix(kind, "@skewed") {
		kind = strings.TrimSuffix(kind, "@skewed")
		timeScale = 600e9
	}
	defer func() { timeScale = 1 }()
	im := newImpl(kind)
	defer im.close()
	tr := &core.Trace{Label: label}
	tr.Events = append(tr.Events, core.Ev(map[string]any{"e": "reset", "kind": kind}))
	zero := func(d map[string]ad) map[string]ad {
		for _, k := range keys {
			if _, ok := d[k]; !ok {
				d[k] = ad{}
			}
		}
		return d
	}
	nmsgs := 0
	for _, raw := range walk {
		var a action
		if err := json.Unmarshal(raw, &a); err != nil {
			core.Fatalf("bad action %s: %v", raw, err)
		}
		switch a.N {
		case "add":
			im.add(a.R, a.K, a.T, a.Op)
			tr.Events = append(tr.Events, core.Ev(map[string]any{"e": "add", "r": a.R, "k": a.K, "t": a.T, "op": a.Op, "obs": im.observe(keys)}))
		case "del":
			im.del(a.R, a.K, a.T, a.Op)
			tr.Events = append(tr.Events, core.Ev(map[string]any{"e": "del", "r": a.R, "k": a.K, "t": a.T, "op": a.Op, "obs": im.observe(keys)}))
		case "snap":
			im.snap(a.R)
			tr.Events = append(tr.Events, core.Ev(map[string]any{"e": "snap", "r": a.R, "obs": im.observe(keys)}))
		case "deliver":
			d, isNil := im.deliver(a.I, a.R, a.Relay)
			tr.Events = append(tr.Events, core.Ev(map[string]any{"e": "deliver", "i": a.I, "r": a.R, "relay": a.Relay, "delta": zero(d), "nil": isNil, "obs": im.observe(keys)}))
		default:
			core.Fatalf("unknown action %q", a.N)
		}
		_ = nmsgs
	}
	return tr
}

func mcCfg(keys string, maxTime, maxOps, maxMsgs int, gen string) string {
	return fmt.Sprintf("CONSTANTS\n Replicas = {\"r1\",\"r2\",\"r3\"}\n Keys = %s\n MaxTime = %d\n MaxOps = %d\n MaxMsgs = %d\n Gen = %q\nINIT MCInit\nNEXT MCNext\nINVARIANTS StateIsJoinOfSeen Converged Dump\nPROPERTY Monotone\n", keys, maxTime, maxOps, maxMsgs, gen)
}

func traceCfg(keys string, maxTime int) string {
	return fmt.Sprintf("CONSTANTS\n Replicas = {\"r1\",\"r2\",\"r3\"}\n Keys = %s\n MaxTime = %d\nINIT TraceInit\nNEXT TraceNext\nCONSTRAINT MarkC\nINVARIANT TraceInv\nPOSTCONDITION AllConsumed\nCHECK_DEADLOCK FALSE\n", keys, maxTime)
}

// Behaviours collects the BEH lines of a simulation run and keeps the maximal ones (TLC prints every prefix and, at
// some depths, every candidate successor).
type Behaviours struct {
	lines []string
}

// Add takes one BEH payload (a JSON array of actions).
func (b *Behaviours) Add(js string) {
	b.lines = append(b.lines, strings.TrimSuffix(strings.TrimSpace(js), "]"))
}

// Done returns at most max maximal behaviours (seeded choice).
func (b *Behaviours) Done(max int, rng *rand.Rand) [][]json.RawMessage {
	return core.Behaviours(b.lines, max, rng)
}

// Generate produces the behaviours (walks over the exported state graph + simulated long behaviours).
func Generate(c *core.Ctx, rng *rand.Rand) (walks [][]json.RawMessage, keys []string, keysTLA string, maxTime int) {
	keys, keysTLA, maxTime = []string{"k1", "k2"}, `{"k1","k2"}`, 3
	// 1. design level, exhaustive
	if c.Quick() {
		c.ModelCheck("MC_Crdt", mcCfg(keysTLA, 2, 2, 3, "none"), tlc.Opts{})
	} else {
		c.ModelCheck("MC_Crdt", mcCfg(keysTLA, 2, 3, 3, "none"), tlc.Opts{Timeout: 0})
		c.ModelCheck("MC_Crdt", mcCfg(`{"k1"}`, 3, 4, 3, "none"), tlc.Opts{})
	}
	// 2. exported graph of a small config, every edge
	g := core.NewGraph()
	c.ModelCheck("MC_Crdt", mcCfg(keysTLA, 2, 2, 2, "edges"), tlc.Opts{OnTag: func(tag, js string) {
		if tag == "EDGE" {
			if err := g.AddJSON(js); err != nil {
				core.Fatalf("EDGE: %v", err)
			}
		}
	}})
	keep := 0.1
	if !c.Quick() {
		keep = 0.5
	}
	init := `{"st":{"r1":{"k1":{"a":0,"d":0},"k2":{"a":0,"d":0}},"r2":{"k1":{"a":0,"d":0},"k2":{"a":0,"d":0}},"r3":{"k1":{"a":0,"d":0},"k2":{"a":0,"d":0}}},"msgs":[]}`
	maxWalks := 6000 // thorough: a seeded sample of the covering walks (all of them: 29 000 walks x 5 implementations = 20 min of validation)
	if c.Quick() {
		maxWalks = 500
		if Light {
			maxWalks = 150
		}
	}
	w, covered, unreach := g.WalksN(init, 40, rng, keep, maxWalks)
	if unreach > 0 || covered == 0 {
		core.Fatalf("crdt graph: %d edges unreachable from init, %d covered (state key mismatch?)", unreach, covered)
	}
	core.Logf("crdt: %d edges exported, %d covered by %d walks", g.Edges, covered, len(w))
	c.Add("edges_exported", int64(g.Edges))
	c.Add("edges_covered_by_all_walks", int64(covered))
	max := 500
	if Light {
		max = 150
	}
	if c.Quick() && len(w) > max {
		rng.Shuffle(len(w), func(i, j int) { w[i], w[j] = w[j], w[i] })
		w = w[:max]
	}
	walks = append(walks, w...)
	// 3. long simulated behaviours with more time values, ops and payloads
	num, depth := 150, 14
	if Light {
		num = 50
	}
	if !c.Quick() {
		num, depth = 600, 20
	}
	var b Behaviours
	r, err := tlc.Run(tlc.Opts{SpecDir: core.SpecDir(), Module: "MC_Crdt", Cfg: mcCfg(keysTLA, 3, 8, 6, "sim"), Workers: 1,
		SimNum: num, SimDepth: depth, Seed: c.Seed, OnTag: func(tag, js string) {
			if tag == "BEH" {
				b.Add(js)
			}
		}})
	if err != nil || r.Violated != "" || r.ErrText != "" || r.TimedOut {
		core.Fatalf("crdt simulation failed: %v %s", err, r.Brief())
	}
	sims := b.Done(4*num, rng)
	core.Logf("crdt: %d simulated behaviours", len(sims))
	c.Add("simulated_behaviours", int64(len(sims)))
	walks = append(walks, sims...)
	return
}

// Run is the C04 check.
func Run(c *core.Ctx) {
	c.Level = "model_checking"
	Explore(c, "replicated map diverges from the LWW join / delta contract", false)
	c.Finish()
}

// Explore is the body shared by C04 and the delta half of C13 (the same traces carry the delta every Merge returned).
func Explore(c *core.Ctx, what string, light bool) int64 {
	Light = light
	// the merge algebra for unbounded timestamps (TLAPS): join laws, delta exactness
	c.Prove("CrdtAlgebra")
	rng := rand.New(rand.NewSource(c.Seed))
	walks, keys, keysTLA, maxTime := Generate(c, rng)
	var traces []*core.Trace
	var mu sync.Mutex
	var wg sync.WaitGroup
	nontrivial := int64(0)
	for i, w := range walks {
		// every behaviour on two or all implementations
		kinds := Kinds
		if c.Quick() {
			kinds = []string{Kinds[i%len(Kinds)], Kinds[(i+2)%len(Kinds)]}
		}
		// scale: the same behaviour with every key standing for 1100 events (payloads beyond a thousand entries per kind)
		if i%12 == 3 {
			kinds = append(append([]string{}, kinds...), "state-volatile-big")
		}
		if i%60 == 7 {
			kinds = append(append([]string{}, kinds...), "state-durable-big")
		}
		// skewed clocks: the same behaviour with model times ten minutes apart (updates reach replicas whose own clock
		// is far behind the update's time)
		if i%4 == 1 {
			kinds = append(append([]string{}, kinds...), []string{"state-volatile@skewed", "state-durable@skewed", "volatile-hop@skewed", "durable@skewed"}[(i/4)%4])
		}
		for _, kind := range kinds {
			wg.Add(1)
			go func(i int, w []json.RawMessage, kind string) {
				defer wg.Done()
				t := replay(kind, keys, w, fmt.Sprintf("%s-beh-%d", kind, i))
				mu.Lock()
				traces = append(traces, t)
				mu.Unlock()
			}(i, w, kind)
		}
		if nontrivialWalk(w) {
			nontrivial++
		}
	}
	wg.Wait()
	sort.Slice(traces, func(i, j int) bool { return traces[i].Label < traces[j].Label })
	for _, t := range traces {
		c.Add("evaluations", int64(len(t.Events)-1))
	}
	if len(traces) > 0 {
		t := traces[rng.Intn(len(traces))]
		c.Sample(map[string]any{"label": t.Label, "events_head": head(t, 5)})
	}
	rej := c.ValidateTraces(traces, core.ValidateOpts{Module: "Crdt_Trace", Cfg: traceCfg(keysTLA, maxTime), ChunkSize: 3000})
	c.ReportRejections(rej, what)
	ConcurrentStage(c, what, keys, keysTLA, maxTime)
	c.Set("distinct_nontrivial", nontrivial)
	c.Set("rule", "behaviours are TLC-generated (all edges of a small exported state graph as covering walks + -simulate behaviours); one is non-trivial when it delivers at least one payload to a replica that already holds a different value for one of its keys or delivers some payload twice; each behaviour is replayed on 2 (quick) or all 5 (thorough) implementations: Volatile in-process, Volatile with codec hop, Durable (disk + memory), State volatile and State durable with Encode/DecodeState on every hop")
	c.Set("implementations", Kinds)
	c.Assume = append(c.Assume, "crdt.Now is driven by the model's clock (single reading per Add/Del; the op payload of Notify gets its own reading)",
		"payload bytes of entries are not compared (the statement speaks of entries, times and activeness)",
		"exhaustive TLC results are for timestamps 1..3, 2 keys, 3 replicas; the value-level merge laws are proved for all naturals by tlapm (CrdtAlgebra.tla, counted under obligations / discharged)")
	return nontrivial
}

func head(t *core.Trace, n int) []json.RawMessage {
	var out []json.RawMessage
	for i, e := range t.Events {
		if i >= n {
			break
		}
		out = append(out, json.RawMessage(e))
	}
	return out
}

func nontrivialWalk(w []json.RawMessage) bool {
	deliveries := map[string]int{}
	ops := 0
	for _, raw := range w {
		var a action
		json.Unmarshal(raw, &a)
		if a.N == "deliver" {
			deliveries[fmt.Sprintf("%d>%s", a.I, a.R)]++
			if ops > 1 {
				return true
			}
		} else if a.N == "add" || a.N == "del" {
			ops++
		}
	}
	for _, n := range deliveries {
		if n > 1 {
			return true
		}
	}
	return false
}
