package authz

// Contracts kept by a contract service (spec/Contracts.tla): the broker runs with the HTTP contract provider against
// a contract service of the harness (net/http/httptest on the loopback interface); TLC-simulated histories of the
// service's table (create / refuse / allow again / change signature or master id / remove), refresh ticks and key
// uses are replayed, and every real verdict of Service.Authorize is validated by TLC (Contracts_Trace).

import (
	"encoding/json"
	"fmt"
	"math/rand"
	"net/http"
	"net/http/httptest"
	"strconv"
	"strings"
	"sync"
	"time"

	"github.com/emitter-io/emitter/internal/security"
	"github.com/emitter-io/emitter/verif/bk"
	"github.com/emitter-io/emitter/verif/core"
	"github.com/emitter-io/emitter/verif/tlc"
)

type contractRec struct {
	State  string `json:"state"`
	Sign   int    `json:"sign"`
	Master int    `json:"master"`
}

type contractService struct {
	mu    sync.Mutex
	table map[uint32]contractRec
	gets  map[uint32]int
	srv   *httptest.Server
}

func newContractService() *contractService {
	cs := &contractService{table: map[uint32]contractRec{}, gets: map[uint32]int{}}
	cs.srv = httptest.NewServer(http.HandlerFunc(func(w http.ResponseWriter, r *http.Request) {
		id64, _ := strconv.ParseUint(r.URL.Path[strings.LastIndex(r.URL.Path, "/")+1:], 10, 32)
		id := uint32(id64)
		cs.mu.Lock()
		rec, ok := cs.table[id]
		cs.gets[id]++
		cs.mu.Unlock()
		w.Header().Set("Content-Type", "application/json")
		if !ok || rec.State == "absent" {
			w.Write([]byte(`{}`))
			return
		}
		state := 0 // ContractStateUnknown
		switch rec.State {
		case "allowed":
			state = 1
		case "refused":
			state = 2
		}
		fmt.Fprintf(w, `{"id":%d,"master":%d,"sign":%d,"state":%d}`, id, rec.Master, rec.Sign, state)
	}))
	return cs
}

func contractsCfg(maxOps int, gen string) string {
	return fmt.Sprintf("CONSTANTS\n Ids = {1001, 1002}\n Signs = {11, 12}\n Masters = {1, 2}\n MaxOps = %d\n Gen = %q\nINIT MCInit\nNEXT MCNext\nVIEW View\nINVARIANTS FreshIsExact Dump\n", maxOps, gen)
}

// ContractsStage is part of the C03 check.
func ContractsStage(c *core.Ctx) {
	rng := rand.New(rand.NewSource(c.Seed + 5))
	c.ModelCheck("MC_Contracts", contractsCfg(5, "none"), tlc.Opts{})
	num, depth := 24, 14
	if !c.Quick() {
		num, depth = 200, 20
	}
	var lines []string
	r, err := tlc.Run(tlc.Opts{SpecDir: core.SpecDir(), Module: "MC_Contracts", Cfg: strings.Replace(contractsCfg(depth, "sim"), "VIEW View\n", "", 1), Workers: 1,
		SimNum: num, SimDepth: depth + 1, Seed: c.Seed, OnTag: func(tag, js string) {
			if tag == "BEH" {
				lines = append(lines, strings.TrimSuffix(strings.TrimSpace(js), "]"))
			}
		}})
	if err != nil || r.Violated != "" || r.ErrText != "" || r.TimedOut {
		core.Fatalf("contracts simulation failed: %v %s\n%s", err, r.Brief(), core.Tail(r.Out, 2000))
	}
	walks := core.Behaviours(lines, num, rng)
	var traces []*core.Trace
	for wi, walk := range walks {
		lic := 1 + (wi+int(c.Seed))%3
		t, err := replayContracts(walk, lic, fmt.Sprintf("contracts-%d-lic%d", wi, lic))
		if err != nil {
			core.Fatalf("contract service behaviour could not be replayed: %v", err)
		}
		c.Add("evaluations", int64(len(t.Events)-1))
		traces = append(traces, t)
	}
	c.Add("contract_service_histories", int64(len(traces)))
	rej := c.ValidateTraces(traces, core.ValidateOpts{Module: "Contracts_Trace",
		Cfg: "CONSTANTS\n Ids = {1001, 1002}\n Signs = {11, 12}\n Masters = {1, 2}\nINIT TraceInit\nNEXT TraceNext\nCONSTRAINT MarkC\nINVARIANT TraceInv\nPOSTCONDITION AllConsumed\nCHECK_DEADLOCK FALSE\n", ChunkSize: 3000})
	c.ReportRejections(rej, "with contracts kept by a contract service, a key was accepted / refused against what the service's table says after a refresh (or against the contract fetched last)")
}

func replayContracts(walk []json.RawMessage, lic int, label string) (*core.Trace, error) {
	cs := newContractService()
	defer cs.srv.Close()
	const tick = 25
	b, err := bk.New(bk.Opts{LicenseVer: lic, Storage: "noop", NoCluster: true, ContractURL: cs.srv.URL + "/", ContractMs: tick})
	if err != nil {
		return nil, err
	}
	defer b.Close()
	tr := &core.Trace{Label: label}
	tr.Events = append(tr.Events, core.Ev(map[string]any{"e": "reset", "license": lic}))
	cached := map[uint32]bool{}
	for _, raw := range walk {
		var a struct {
			N      string      `json:"n"`
			ID     uint32      `json:"id"`
			Rec    contractRec `json:"rec"`
			Sign   uint32      `json:"sign"`
			Master uint16      `json:"master"`
		}
		if err := json.Unmarshal(raw, &a); err != nil {
			return nil, err
		}
		switch a.N {
		case "set":
			cs.mu.Lock()
			cs.table[a.ID] = a.Rec
			cs.mu.Unlock()
			tr.Events = append(tr.Events, core.Ev(map[string]any{"e": "set", "id": a.ID, "rec": a.Rec}))
		case "refresh":
			// a refresh tick that STARTED after now has fetched every cached contract the service knows: wait until each of
			// them was asked for twice more (the first of the two may belong to a tick that began before this step)
			cs.mu.Lock()
			base := map[uint32]int{}
			for id := range cached {
				base[id] = cs.gets[id]
			}
			cs.mu.Unlock()
			deadline := time.Now().Add(5 * time.Second)
			for {
				done := true
				cs.mu.Lock()
				for id := range cached {
					if cs.gets[id] < base[id]+2 {
						done = false
					}
				}
				cs.mu.Unlock()
				if done {
					break
				}
				if time.Now().After(deadline) {
					return nil, fmt.Errorf("the contract provider did not refresh within 5 s")
				}
				time.Sleep(2 * time.Millisecond)
			}
			time.Sleep(3 * time.Millisecond) // the fetched contract is stored right after the reply was read
			tr.Events = append(tr.Events, core.Ev(map[string]any{"e": "refresh"}))
		case "use":
			key := security.Key(make([]byte, 24))
			key.SetSalt(uint16(a.ID))
			key.SetMaster(a.Master)
			key.SetContract(a.ID)
			key.SetSignature(a.Sign)
			key.SetPermissions(bk.Perms("rwslp"))
			key.SetExpires(time.Unix(0, 0))
			key.SetTarget("#/")
			ks := b.RawKey(key)
			_, _, ok := b.Svc.Authorize(security.ParseChannel([]byte(ks+"/a/b/")), security.AllowRead)
			// a contract the service knows is cached from the first use on
			cs.mu.Lock()
			if rec, is := cs.table[a.ID]; is && rec.State != "absent" {
				cached[a.ID] = true
			}
			cs.mu.Unlock()
			// the same contract / signature / master id as a MASTER key presented to the key generator
			mk := security.Key(make([]byte, 24))
			mk.SetSalt(uint16(a.ID) + 1)
			mk.SetMaster(a.Master)
			mk.SetContract(a.ID)
			mk.SetSignature(a.Sign)
			mk.SetPermissions(security.AllowMaster)
			mk.SetExpires(time.Unix(0, 0))
			_, kerr := b.Svc.VerifKeygen().CreateKey(b.RawKey(mk), "a/b/", security.AllowRead, time.Unix(0, 0))
			tr.Events = append(tr.Events, core.Ev(map[string]any{"e": "use", "id": a.ID, "sign": a.Sign, "master": a.Master, "ok": ok, "mint": kerr == nil}))
		}
	}
	return tr, nil
}
