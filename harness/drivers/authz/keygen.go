package authz

import (
	"bytes"
	"encoding/json"
	"fmt"
	"net/http/httptest"
	"net/url"
	"regexp"
	"sort"
	"strings"
	"time"

	"github.com/emitter-io/emitter/internal/network/mqtt"
	"github.com/emitter-io/emitter/internal/security"
	"github.com/emitter-io/emitter/verif/bk"
	"github.com/emitter-io/emitter/verif/core"
	"github.com/emitter-io/emitter/verif/tlc"
)

var keyInPage = regexp.MustCompile(`key    : ([A-Za-z0-9_-]{32})`)

type parent struct {
	Kind    string   `json:"kind"`
	Perms   []string `json:"perms"`
	Target  Chan     `json:"target"`
	Expired bool     `json:"expired"`
}

type kgReq struct {
	Type []string `json:"type"`
	TTL  string   `json:"ttl"`
	Ch   Chan     `json:"ch"`
	ChOK bool     `json:"chOK"`
	Long bool     `json:"long"`
}

type kgRes struct {
	Status int      `json:"status"`
	Perms  []string `json:"perms"`
	Target Chan     `json:"target"`
	Expiry string   `json:"expiry"`
	Sub    bool     `json:"sub"`
}

type probe struct {
	Req   Chan   `json:"req"`
	Op    string `json:"op"`
	OK    bool   `json:"ok"`
	Entry bool   `json:"entry"`
}

type kgCase struct {
	Parent     parent  `json:"parent"`
	Req        kgReq   `json:"req"`
	Want       kgRes   `json:"want"`
	Code       kgRes   `json:"code"`
	Probes     []probe `json:"probes"`
	ProbesCode []probe `json:"probesCode"`
}

func parentKey(b *bk.Broker, p parent, salt uint16) string {
	exp := "none"
	if p.Expired {
		exp = "past"
	}
	k := Key{Decrypts: true, Contract: "own", SigOK: true, MasterOK: true, Perms: p.Perms, Expiry: exp, Target: p.Target}
	switch p.Kind {
	case "garbage":
		return "this-is-not-a-key"
	case "master-foreign":
		k.Contract = "foreign"
	case "master-badsig":
		k.SigOK = false
	}
	s, err := Mint(b, k, salt)
	if err != nil {
		core.Fatalf("mint parent: %v", err)
	}
	return s
}

func ttlOf(t string) int32 {
	switch t {
	case "future":
		return 3600
	case "past":
		return -3600
	case "farpast":
		return -2147483648
	}
	return 0
}

func letters(perm uint8) []string {
	var out []string
	for _, l := range []struct {
		c string
		m uint8
	}{{"m", security.AllowMaster}, {"r", security.AllowRead}, {"w", security.AllowWrite}, {"s", security.AllowStore}, {"l", security.AllowLoad},
		{"p", security.AllowPresence}, {"e", security.AllowExtend}, {"x", security.AllowExecute}} {
		if perm&l.m != 0 {
			out = append(out, l.c)
		}
	}
	sort.Strings(out)
	return out
}

func sorted(s []string) []string {
	o := append([]string{}, s...)
	sort.Strings(o)
	return o
}

func subst(c Chan, conn string) Chan {
	out := Chan{Hash: c.Hash}
	for _, w := range c.W {
		if w == "CONN" {
			w = conn
		}
		out.W = append(out.W, w)
	}
	return out
}

// RunC11 is the C11 check.
func RunC11(c *core.Ctx) {
	c.Level = "exploration"
	type world struct {
		b  *bk.Broker
		cl *bk.Client
		pr *bk.Client // a second connection for entry-point probes
	}
	worlds := map[int]*world{}
	for v := 1; v <= 3; v++ {
		b, err := bk.New(bk.Opts{LicenseVer: v, Storage: "noop"})
		if err != nil {
			core.Fatalf("broker (license v%d): %v", v, err)
		}
		defer b.Close()
		w := &world{b: b, cl: b.Attach(), pr: b.Attach()}
		w.cl.Send(&mqtt.Connect{ClientID: []byte("kg")})
		w.pr.Send(&mqtt.Connect{ClientID: []byte("probe")})
		w.cl.Barrier(5 * time.Second)
		w.pr.Barrier(5 * time.Second)
		worlds[v] = w
	}
	parents := map[string]string{}
	var n, expected, ok200, known int64
	check := func(js string) {
		var cs kgCase
		if err := json.Unmarshal([]byte(js), &cs); err != nil {
			core.Fatalf("KG: %v", err)
		}
		n++
		v := 1 + int((n+c.Seed)%3)
		w := worlds[v]
		// the same parent key string is reused for every case of its shape (a broker sees the same keys again and again)
		shape := fmt.Sprintf("%d|%s|%v|%s|%v", v, cs.Parent.Kind, sorted(cs.Parent.Perms), cs.Parent.Target.String(), cs.Parent.Expired)
		pk, seen := parents[shape]
		if !seen {
			pk = parentKey(w.b, cs.Parent, uint16(len(parents)+1))
			parents[shape] = pk
		}
		chName := cs.Req.Ch.String()
		if cs.Req.Long {
			// more levels than a key target can hold (23): plain, and ending in the multi-level wildcard
			chName = []string{strings.Repeat("x/", 24), strings.Repeat("x/", 24) + "#/", strings.Repeat("x/", 23) + "#/", strings.Repeat("x/", 30) + "#/"}[n%4]
		}
		if !cs.Req.ChOK {
			chName = strings.TrimSuffix(chName, "/")
		}
		fields := map[string]any{"key": pk, "channel": chName, "type": strings.Join(cs.Req.Type, ""), "ttl": ttlOf(cs.Req.TTL)}
		if (n+c.Seed)%2 == 0 {
			// a field left out of the JSON means its zero value (no permissions, never expires, no key): the same request,
			// encoded differently - and answered after many complete requests of other shapes on the same broker
			if len(cs.Req.Type) == 0 {
				delete(fields, "type")
			}
			if ttlOf(cs.Req.TTL) == 0 {
				delete(fields, "ttl")
			}
			if cs.Parent.Kind == "garbage" {
				delete(fields, "key")
			}
			c.Add("requests_with_omitted_fields", 1)
		}
		body, _ := json.Marshal(fields)
		t0 := time.Now()
		w.cl.Send(&mqtt.Publish{Header: mqtt.Header{QOS: 1}, MessageID: uint16(n%60000 + 1), Topic: []byte("emitter/keygen/"), Payload: body})
		pkts, err := w.cl.Barrier(8 * time.Second)
		if err != nil {
			core.Fatalf("keygen request: %v", err)
		}
		var resp *bk.Pkt
		for _, m := range pkts {
			if p := bk.Abstract(m); p.T == "resp" && p.Api == "keygen" {
				resp = &p
			}
		}
		fail := func(what string) {
			replay, _ := json.Marshal(map[string]any{"e": "keygen", "case": cs, "license": v, "parent_key": pk, "request": json.RawMessage(body), "response": resp})
			c.Violation(fmt.Sprintf("%s (license v%d; parent %s perms %v target %q expired %v; request type %v ttl %s channel %q)", what, v,
				cs.Parent.Kind, cs.Parent.Perms, cs.Parent.Target.String(), cs.Parent.Expired, cs.Req.Type, cs.Req.TTL, chName), replay)
		}
		if resp == nil {
			fail("no keygen response")
			return
		}
		if n%397 == 1 {
			c.Sample(map[string]any{"parent": cs.Parent, "request": cs.Req, "want": cs.Want, "real_status": resp.Code})
		}
		if resp.Code != cs.Want.Status {
			if resp.Code == cs.Code.Status && cs.Code.Status != cs.Want.Status && c.Known("trailing_plus_dead") {
				known++
				return
			}
			// error classes: any refusal is a refusal (400/401/404/500 are not distinguished by the property)
			if !(resp.Code != 200 && cs.Want.Status != 200) {
				fail(fmt.Sprintf("keygen answered %d, the property prescribes %d", resp.Code, cs.Want.Status))
				return
			}
		}
		// the exported CreateKey (used by the HTTP key generation page) must take the same decision for master parents
		if strings.HasPrefix(cs.Parent.Kind, "master") {
			var exp time.Time = time.Unix(0, 0)
			if t := ttlOf(cs.Req.TTL); t != 0 {
				exp = time.Now().Add(time.Duration(t) * time.Second)
			}
			_, e := w.b.Svc.VerifKeygen().CreateKey(pk, chName, bk.Perms(strings.Join(cs.Req.Type, "")), exp)
			if (e == nil) != (cs.Want.Status == 200) {
				fail(fmt.Sprintf("keygen.CreateKey (the HTTP page's entry) succeeded=%v, the property prescribes status %d", e == nil, cs.Want.Status))
				return
			}
			c.Add("direct_createkey_calls", 1)
			// the HTTP key generation page itself (POST form -> keygenForm -> CreateKey): same decision, and a key with
			// exactly the ticked permissions, the requested channel and expiry
			if typ := strings.Join(cs.Req.Type, ""); !strings.ContainsAny(typ, "x") {
				form := url.Values{"key": {pk}, "channel": {chName}}
				for letter, field := range map[byte]string{'r': "sub", 'w': "pub", 's': "store", 'l': "load", 'p': "presence", 'e': "extend"} {
					if strings.IndexByte(typ, letter) >= 0 {
						form.Set(field, "on")
					}
				}
				if t := ttlOf(cs.Req.TTL); t != 0 {
					form.Set("ttl", fmt.Sprint(t))
				}
				req := httptest.NewRequest("POST", "/keygen", strings.NewReader(form.Encode()))
				req.Header.Set("Content-Type", "application/x-www-form-urlencoded")
				rec := httptest.NewRecorder()
				w.b.Svc.VerifKeygen().HTTP()(rec, req)
				m := keyInPage.FindStringSubmatch(rec.Body.String())
				if (m != nil) != (cs.Want.Status == 200) {
					fail(fmt.Sprintf("the HTTP key generation page issued a key = %v, the property prescribes status %d", m != nil, cs.Want.Status))
					return
				}
				if m != nil {
					hk, err := w.b.Cipher.DecryptKey([]byte(m[1]))
					if err != nil {
						fail("the key shown by the HTTP key generation page does not decrypt")
						return
					}
					if got := letters(hk.Permissions()); strings.Join(got, "") != strings.Join(sorted(cs.Want.Perms), "") || hk.IsMaster() {
						fail(fmt.Sprintf("the HTTP key generation page issued a key with permissions %v (master %v), must be %v", got, hk.IsMaster(), sorted(cs.Want.Perms)))
						return
					}
					ref := security.Key(make([]byte, 24))
					ref.SetTarget(cs.Want.Target.String())
					if !bytes.Equal(ref[12:15], hk[12:15]) || !bytes.Equal(ref[16:20], hk[16:20]) || hk.Contract() != w.b.Lic.Contract() || hk.Signature() != w.b.Lic.Signature() {
						fail(fmt.Sprintf("the HTTP key generation page issued a key that does not target %q under the parent's contract", cs.Want.Target.String()))
						return
					}
					if (cs.Want.Expiry == "none") != hk.Expires().Equal(time.Unix(0, 0).UTC()) {
						fail(fmt.Sprintf("the HTTP key generation page issued a key expiring %v, requested %s", hk.Expires(), cs.Want.Expiry))
						return
					}
				}
				c.Add("http_keygen_form_posts", 1)
			}
		}
		if cs.Want.Status != 200 {
			return
		}
		ok200++
		key, err := w.b.Cipher.DecryptKey([]byte(resp.Key))
		if err != nil {
			fail("returned key does not decrypt")
			return
		}
		// fields
		if got := letters(key.Permissions()); strings.Join(got, "") != strings.Join(sorted(cs.Want.Perms), "") {
			fail(fmt.Sprintf("derived key has permissions %v, must have %v", got, sorted(cs.Want.Perms)))
			return
		}
		if key.IsMaster() || key.HasPermission(security.AllowMaster) {
			fail("derived key is a master key")
			return
		}
		if key.Contract() != w.b.Lic.Contract() || key.Signature() != w.b.Lic.Signature() || key.Master() != 1 {
			fail("derived key changed contract / signature / master id")
			return
		}
		target := subst(cs.Want.Target, w.cl.ID)
		ref := security.Key(make([]byte, 24))
		ref.SetTarget(target.String())
		if !bytes.Equal(ref[12:15], key[12:15]) || !bytes.Equal(ref[16:20], key[16:20]) {
			fail(fmt.Sprintf("derived key does not target %q", target.String()))
			return
		}
		exp := key.Expires()
		switch cs.Want.Expiry {
		case "none":
			if !exp.Equal(time.Unix(0, 0).UTC()) {
				fail(fmt.Sprintf("derived key expires %v, requested: never", exp))
				return
			}
		case "future":
			if d := exp.Sub(t0.Add(3600 * time.Second)); d < -10*time.Second || d > 10*time.Second {
				fail(fmt.Sprintf("derived key expires %v, requested now+3600s", exp))
				return
			}
		case "past":
			if !key.IsExpired() {
				if cs.Req.TTL == "farpast" && c.Known("ttl_wrap") {
					known++
				} else {
					fail(fmt.Sprintf("derived key was requested with a negative ttl (%s) but is valid until %v", cs.Req.TTL, exp))
				}
				return
			}
		}
		// the parent key itself is unchanged by having been used for a link extension: it still authorizes the extension
		if cs.Want.Sub {
			ch := security.ParseChannel([]byte(pk + "/" + Chan{W: cs.Req.Ch.W}.String()))
			if _, _, still := w.b.Svc.Authorize(ch, security.AllowExtend); !still {
				fail("after a link extension the parent key is no longer authorized for the same extension")
				return
			}
		}
		// use: Authorize on the probe set, and the entry points
		code := map[string]probe{}
		for _, p := range cs.ProbesCode {
			code[p.Op+"|"+p.Req.String()] = p
		}
		for _, p := range cs.Probes {
			req := subst(p.Req, w.cl.ID)
			ch := security.ParseChannel([]byte(resp.Key + "/" + req.String()))
			_, _, real := w.b.Svc.Authorize(ch, permOf(p.Op))
			if real != p.OK {
				if cp := code[p.Op+"|"+p.Req.String()]; cp.OK == real && c.Known("trailing_plus_dead") {
					known++
					continue
				}
				fail(fmt.Sprintf("derived key: Authorize(%s on %q) = %v, must be %v", p.Op, req.String(), real, p.OK))
				return
			}
			if (p.Op == "subscribe" || p.Op == "publish") && len(req.W) == len(target.W) && (n%7 == 0 || !c.Quick()) {
				var got bool
				if p.Op == "subscribe" {
					w.pr.Send(&mqtt.Subscribe{MessageID: 5, Subscriptions: []mqtt.TopicQOSTuple{{Topic: []byte(resp.Key + "/" + req.String())}}})
					pk, _ := w.pr.Barrier(8 * time.Second)
					for _, m := range pk {
						if a := bk.Abstract(m); a.T == "suback" {
							got = a.Code != 128
						}
					}
					w.pr.Send(&mqtt.Unsubscribe{MessageID: 6, Topics: []mqtt.TopicQOSTuple{{Topic: []byte(resp.Key + "/" + req.String())}}})
					w.pr.Barrier(8 * time.Second)
				} else {
					w.pr.Send(&mqtt.Publish{Header: mqtt.Header{QOS: 1}, MessageID: 7, Topic: []byte(resp.Key + "/" + req.String()), Payload: []byte("x")})
					pk, _ := w.pr.Barrier(8 * time.Second)
					got = true
					for _, m := range pk {
						if a := bk.Abstract(m); a.T == "err" {
							got = false
						}
					}
				}
				if got != p.Entry {
					if cp := code[p.Op+"|"+p.Req.String()]; cp.Entry == got && c.Known("trailing_plus_dead") {
						known++
						continue
					}
					fail(fmt.Sprintf("derived key: %s on %q accepted=%v at the broker, must be %v", p.Op, req.String(), got, p.Entry))
					return
				}
				c.Add("entry_point_probes", 1)
			}
		}
	}
	r, err := tlc.Run(tlc.Opts{SpecDir: core.SpecDir(), Module: "MC_KeyGen", Cfg: fmt.Sprintf("CONSTANT Tier = %q\nINIT Init\nNEXT Next\n", c.Tier), Workers: 1,
		Timeout: 30 * time.Minute,
		OnTag: func(tag, js string) {
			switch tag {
			case "KG":
				check(js)
			case "COUNT":
				var x struct{ N int64 }
				json.Unmarshal([]byte(js), &x)
				expected = x.N
			}
		}})
	if err != nil || !r.OK() {
		core.Fatalf("MC_KeyGen: %v %s\n%s", err, r.Brief(), core.Tail(r.Out, 2000))
	}
	if n == 0 || n != expected {
		core.Fatalf("received %d cases from TLC, the grid has %d", n, expected)
	}
	// contracts kept by a contract service: only master keys of a contract the service currently allows mint keys
	ContractsStage(c)
	c.Set("evaluations", n)
	c.Set("distinct_nontrivial", ok200)
	c.Set("explained_by_known_findings", known)
	c.Set("exhaustive", true)
	c.Set("rule", "TLC enumerates parent key kinds (master, expired, foreign contract, wrong signature, extendable with 4 masks on 2 targets, ordinary, garbage) x requested type x ttl class x channel (valid, '#/', wildcard level, no trailing slash, 24 levels) with the prescribed result and the grants of the derived key; each case is sent as an emitter/keygen/ request to a real broker (license version rotates), the returned key is decrypted and compared field by field, then used (Authorize on 20 probes, SUBSCRIBE/PUBLISH for a subset); non-trivial = cases that must yield a key")
	c.Assume = append(c.Assume, "expiry tolerance 10 s", "refusals are compared as refusals (the property does not distinguish 400/401/404)")
	c.Finish()
}
