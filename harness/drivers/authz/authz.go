// Package authz binds spec/AuthZ.tla to the real key machinery: security.Key, the three license ciphers,
// contract validation and broker.Service.Authorize (properties C03, C11, C12).
package authz

import (
	"encoding/json"
	"fmt"
	"math/rand"
	"strings"
	"sync"
	"time"

	"github.com/emitter-io/emitter/internal/event"
	"github.com/emitter-io/emitter/internal/security"
	"github.com/emitter-io/emitter/verif/bk"
	"github.com/emitter-io/emitter/verif/core"
	"github.com/emitter-io/emitter/verif/tlc"
)

// Chan is a target or a requested channel of the model.
type Chan struct {
	W    []string `json:"w"`
	Hash bool     `json:"hash"`
}

// String renders the channel as the broker expects it ("a/b/", "a/#/", "#/").
func (c Chan) String() string {
	s := ""
	for _, w := range c.W {
		s += w + "/"
	}
	if c.Hash {
		s += "#/"
	}
	return s
}

// Key is the abstract key of the model.
type Key struct {
	Decrypts bool     `json:"decrypts"`
	Contract string   `json:"contract"`
	SigOK    bool     `json:"sigOK"`
	MasterOK bool     `json:"masterOK"`
	Perms    []string `json:"perms"`
	Expiry   string   `json:"expiry"`
	Banned   bool     `json:"banned"`
	Target   Chan     `json:"target"`
}

// Case is one tuple of the grid with both verdicts.
type Case struct {
	Key  Key    `json:"key"`
	Req  Chan   `json:"req"`
	Op   string `json:"op"`
	Want bool   `json:"want"`
	Code bool   `json:"code"`
	Tag  string `json:"tag"`
}

func permOf(op string) uint8 {
	switch op {
	case "subscribe":
		return security.AllowRead
	case "publish":
		return security.AllowWrite
	case "history":
		return security.AllowLoad
	case "presence":
		return security.AllowPresence
	case "extend":
		return security.AllowExtend
	}
	return 0
}

// Mint builds the real key string for an abstract key under the broker's license.
func Mint(b *bk.Broker, k Key, salt uint16) (string, error) {
	key := security.Key(make([]byte, 24))
	key.SetSalt(salt)
	master, contract, sig := uint16(1), b.Lic.Contract(), b.Lic.Signature()
	if !k.MasterOK {
		master = 2
	}
	if k.Contract != "own" {
		contract++
	}
	if !k.SigOK {
		sig ^= 0x10
	}
	key.SetMaster(master)
	key.SetContract(contract)
	key.SetSignature(sig)
	key.SetPermissions(bk.Perms(strings.Join(k.Perms, "")))
	switch k.Expiry {
	case "past":
		key.SetExpires(time.Now().Add(-time.Hour))
	case "future":
		key.SetExpires(time.Now().Add(time.Hour))
	default:
		key.SetExpires(time.Unix(0, 0))
	}
	if err := key.SetTarget(k.Target.String()); err != nil {
		return "", err
	}
	s := b.RawKey(key)
	if !k.Decrypts {
		s = s[:len(s)-1] // 31 characters: not a key
	}
	return s, nil
}

// RunC03 is the C03 check.
func RunC03(c *core.Ctx) {
	c.Level = "exploration"
	brokers := map[int]*bk.Broker{}
	for v := 1; v <= 3; v++ {
		b, err := bk.New(bk.Opts{LicenseVer: v, Storage: "noop"})
		if err != nil {
			core.Fatalf("broker (license v%d): %v", v, err)
		}
		defer b.Close()
		brokers[v] = b
	}
	var n, expected, nontrivial, granted, known int64
	// cases kept for the concurrent stage (per license): key string, request, permission, the verdict the property prescribes
	type concCase struct {
		ks, ch string
		perm   uint8
		want   bool
		cs     Case
	}
	keep := map[int][]concCase{}
	check := func(js string) {
		var cs Case
		if err := json.Unmarshal([]byte(js), &cs); err != nil {
			core.Fatalf("CASE: %v", err)
		}
		n++
		if cs.Want {
			granted++
		}
		for v := 1; v <= 3; v++ {
			b := brokers[v]
			ks, err := Mint(b, cs.Key, uint16(n))
			if err != nil {
				core.Fatalf("mint %s: %v", js, err)
			}
			ban := event.Ban(ks)
			if cs.Key.Banned {
				b.Svc.VerifCluster().Notify(&ban, true)
			}
			ch := security.ParseChannel([]byte(ks + "/" + cs.Req.String()))
			_, _, real := b.Svc.Authorize(ch, permOf(cs.Op))
			if cs.Key.Banned {
				b.Svc.VerifCluster().Notify(&ban, false)
			}
			switch {
			case real == cs.Want:
				if !cs.Key.Banned && cs.Key.Expiry != "future" && (cs.Want || n%3 == 0) && len(keep[v]) < 6000 {
					keep[v] = append(keep[v], concCase{ks, cs.Req.String(), permOf(cs.Op), cs.Want, cs})
				}
			case real == cs.Code && cs.Tag != "" && c.Known(cs.Tag):
				known++
			default:
				replay, _ := json.Marshal(map[string]any{"e": "case", "case": cs, "license": v, "key": ks, "channel": cs.Req.String(), "real": real})
				c.Violation(fmt.Sprintf("Authorize(license v%d) = %v but the property prescribes %v for key target %q perms %v expiry %s contract %s banned %v, op %s on %q",
					v, real, cs.Want, cs.Key.Target.String(), cs.Key.Perms, cs.Key.Expiry, cs.Key.Contract, cs.Key.Banned, cs.Op, cs.Req.String()), replay)
			}
		}
		if n%1499 == 1 {
			c.Sample(cs)
		}
	}
	r, err := tlc.Run(tlc.Opts{SpecDir: core.SpecDir(), Module: "MC_AuthZ", Cfg: fmt.Sprintf("CONSTANT Tier = %q\nINIT Init\nNEXT Next\n", c.Tier), Workers: 1,
		Timeout: 30 * time.Minute, HeapGB: 8,
		OnTag: func(tag, js string) {
			switch tag {
			case "CASE":
				check(js)
			case "COUNT":
				var x struct{ N int64 }
				json.Unmarshal([]byte(js), &x)
				expected = x.N
			case "UNNAMED":
				core.Fatalf("AuthZ.tla: the code-shaped target rule differs from the property's rule on pairs no deviation names: %s", js[:min(len(js), 600)])
			}
		}})
	if err != nil || !r.OK() {
		core.Fatalf("MC_AuthZ: %v %s\n%s", err, r.Brief(), core.Tail(r.Out, 2000))
	}
	if n == 0 || n != expected {
		core.Fatalf("received %d cases from TLC, the grid has %d", n, expected)
	}
	// histories: the same key string presented repeatedly on one running broker. "has not expired" is a statement about
	// the moment of use: a key accepted now must be refused once its expiry has passed (AuthZ!Authorize with expiry
	// "future" before, "past" after); a banned key is refused, an unbanned one accepted again.
	var wg sync.WaitGroup
	for v := 1; v <= 3; v++ {
		wg.Add(1)
		go func(v int) {
			defer wg.Done()
			b := brokers[v]
			key := security.Key(make([]byte, 24))
			key.SetSalt(uint16(777 + v))
			key.SetMaster(1)
			key.SetContract(b.Lic.Contract())
			key.SetSignature(b.Lic.Signature())
			key.SetPermissions(bk.Perms("rwslp"))
			key.SetExpires(time.Now().Add(2 * time.Second))
			key.SetTarget("a/#/")
			ks := b.RawKey(key)
			use := func() bool {
				_, _, ok := b.Svc.Authorize(security.ParseChannel([]byte(ks+"/a/b/")), security.AllowRead)
				return ok
			}
			var obs []bool
			for i := 0; i < 3; i++ {
				obs = append(obs, use())
			}
			time.Sleep(3200 * time.Millisecond)
			for i := 0; i < 3; i++ {
				obs = append(obs, use())
			}
			want := []bool{true, true, true, false, false, false}
			if fmt.Sprint(obs) != fmt.Sprint(want) {
				replay, _ := json.Marshal(map[string]any{"e": "history", "license": v, "key": ks, "expires_in_s": 2, "uses_before_and_after": obs})
				c.Violation(fmt.Sprintf("license v%d: a key expiring in 2 s was authorized %v over three uses before and three uses after its expiry, must be %v", v, obs, want), replay)
			}
		}(v)
	}
	wg.Wait()
	c.Add("expiry_while_in_use_histories", 3)
	// other spellings of an issued key: the key text is 32 characters of the URL-safe alphabet; the same bits written with
	// the standard alphabet's '+' and '/' (or padded, or in another case) are not the key.  A banned key in particular
	// stays banned however it is spelled (the ban is looked up by the presented string).
	var respelled int64
	for v := 1; v <= 3; v++ {
		b := brokers[v]
		for _, x := range keep[v] {
			if !x.want || !strings.ContainsAny(x.ks, "-_") || respelled > 600 {
				continue
			}
			alt := strings.NewReplacer("-", "+", "_", "/").Replace(x.ks)
			ban := event.Ban(x.ks)
			b.Svc.VerifCluster().Notify(&ban, true)
			_, _, banned := b.Svc.Authorize(security.ParseChannel([]byte(x.ks+"/"+x.ch)), x.perm)
			_, _, altOK := b.Svc.Authorize(security.ParseChannel([]byte(alt+"/"+x.ch)), x.perm)
			b.Svc.VerifCluster().Notify(&ban, false)
			respelled++
			if banned || altOK {
				replay, _ := json.Marshal(map[string]any{"e": "respelled", "license": v, "key": x.ks, "respelled": alt, "channel": x.ch, "banned_key_accepted": banned, "respelled_accepted": altOK})
				c.Violation(fmt.Sprintf("license v%d: key %s is banned; presented as issued it is accepted=%v, respelled with the standard base64 alphabet (%s) it is accepted=%v - both must be refused", v, x.ks, banned, alt, altOK), replay)
			}
		}
	}
	c.Add("respelled_banned_keys", respelled)
	// concurrent use: the broker authorizes on every connection's goroutine at once, with one cipher / key generator /
	// contract provider per broker.  The verdict for a (key, channel, operation) does not depend on what other
	// connections present at the same moment: every verdict of the grid, asked again by 16 goroutines in random order,
	// must be the one the property prescribes.
	var concN, concBad int64
	var cmu sync.Mutex
	for v := 1; v <= 3; v++ {
		cases := keep[v]
		if len(cases) == 0 {
			continue
		}
		b := brokers[v]
		rounds := 40000
		if !c.Quick() {
			rounds = 400000
		}
		var cwg sync.WaitGroup
		for g := 0; g < 16; g++ {
			cwg.Add(1)
			go func(g int) {
				defer cwg.Done()
				r := rand.New(rand.NewSource(c.Seed*100 + int64(g)))
				var window [3]concCase
				for i := 0; i < rounds; i++ {
					// a sliding working set of three keys per goroutine (plus the other goroutines' sets): whatever the
					// broker memoizes per key, salt or contract is hit, evicted and refilled all the time
					if i%192 == 0 {
						for j := range window {
							window[j] = cases[r.Intn(len(cases))]
						}
					}
					x := window[r.Intn(len(window))]
					_, _, real := b.Svc.Authorize(security.ParseChannel([]byte(x.ks+"/"+x.ch)), x.perm)
					if real != x.want {
						cmu.Lock()
						concBad++
						if concBad <= 3 {
							replay, _ := json.Marshal(map[string]any{"e": "concurrent-case", "case": x.cs, "license": v, "key": x.ks, "channel": x.ch, "real": real, "goroutines": 16})
							c.Violation(fmt.Sprintf("Authorize(license v%d) = %v under concurrent use (16 goroutines presenting different keys), the property prescribes %v (and the same call alone returns that): key target %q perms %v, op %s on %q",
								v, real, x.want, x.cs.Key.Target.String(), x.cs.Key.Perms, x.cs.Op, x.ch), replay)
						}
						cmu.Unlock()
					}
				}
			}(g)
		}
		cwg.Wait()
		concN += int64(16 * rounds)
	}
	c.Add("concurrent_authorizations", concN)
	ContractsStage(c)
	nontrivial = granted
	c.Set("evaluations", n*3)
	c.Set("cases", n)
	c.Set("distinct_nontrivial", nontrivial)
	c.Set("explained_by_known_findings", known)
	c.Set("exhaustive", true)
	c.Set("rule", "TLC enumerates (A) every (target, request) pair over {a,b,+} with exact and '#/' targets and requests (depth 3 quick / 4 thorough) with an otherwise perfect key and (B) every combination of decryptable, contract, signature, master id, permission mask, expiry, ban and operation on covering / non-covering channels; each case is minted as a real key under license v1, v2 and v3 and decided by the real Service.Authorize; non-trivial = cases the property grants (the rest must be refused); all cases are distinct tuples")
	c.Assume = append(c.Assume, "murmur hashes of the few channel strings involved do not collide", "the key's expiry 'past'/'future' is now -/+ one hour")
	c.Finish()
}
