package authz

import (
	"encoding/base64"
	"encoding/binary"
	"encoding/json"
	"fmt"
	"math/rand"
	"sort"
	"strings"
	"sync"
	"time"

	"github.com/emitter-io/emitter/internal/network/mqtt"
	"github.com/emitter-io/emitter/internal/security"
	"github.com/emitter-io/emitter/internal/security/hash"
	"github.com/emitter-io/emitter/verif/bk"
	"github.com/emitter-io/emitter/verif/core"
	"github.com/emitter-io/emitter/verif/tlc"
)

type tamperOp struct {
	F   string          `json:"f"`
	Arg json.RawMessage `json:"arg"`
}

type tprobe struct {
	Req Chan   `json:"req"`
	Op  string `json:"op"`
}

func (p tprobe) String() string { return p.Op + " " + p.Req.String() }

type tamperCase struct {
	Key struct {
		Perms  []string `json:"perms"`
		Target Chan     `json:"target"`
		Expiry string   `json:"expiry"`
	} `json:"key"`
	Op         tamperOp `json:"op"`
	Base       []tprobe `json:"base"`
	GainStream []tprobe `json:"gainStream"`
}

func targetString(w []string) string { return strings.Join(w, "/") }

// grants evaluates the real Service.Authorize over the probe set.
func grants(b *bk.Broker, key string, probes []tprobe) map[string]bool {
	out := map[string]bool{}
	for _, p := range probes {
		ch := security.ParseChannel([]byte(key + "/" + p.Req.String()))
		if _, _, ok := b.Svc.Authorize(ch, permOf(p.Op)); ok {
			out[p.String()] = true
		}
	}
	// minting: is the string accepted as a master key by the key generator?
	if _, e := b.Svc.VerifKeygen().CreateKey(key, "x/y/", security.AllowRead, time.Unix(0, 0)); e == nil {
		out["mint x/y/"] = true
	}
	// banning keys (emitter/keyban/) with the string as the secret: only worth a round trip when it decrypts to the
	// master permission byte (the harness peeks with the cipher only to skip useless requests)
	if pk, err := b.Cipher.DecryptKey([]byte(key)); err == nil && len(pk) == 24 && pk.IsMaster() {
		if banProbe(b, key) {
			out["keyban"] = true
		}
	}
	return out
}

var banClients = map[*bk.Broker]*bk.Client{}
var banTargets = map[*bk.Broker]string{}

// banProbe sends an emitter/keyban/ request with the given secret and reports whether the broker accepted it.
func banProbe(b *bk.Broker, secret string) bool {
	cl := banClients[b]
	if cl == nil {
		cl = b.Attach()
		cl.Send(&mqtt.Connect{ClientID: []byte("ban")})
		cl.Barrier(5 * time.Second)
		banClients[b] = cl
		banTargets[b], _ = b.Key("ban/target/", "r", time.Unix(0, 0))
	}
	body, _ := json.Marshal(map[string]any{"secret": secret, "target": banTargets[b], "banned": true})
	cl.Send(&mqtt.Publish{Header: mqtt.Header{QOS: 1}, MessageID: 9, Topic: []byte("emitter/keyban/"), Payload: body})
	pk, err := cl.Barrier(8 * time.Second)
	if err != nil {
		core.Fatalf("keyban probe: %v", err)
	}
	ok := false
	for _, m := range pk {
		if a := bk.Abstract(m); a.T == "resp" && a.Api == "keyban" && a.Code == 200 {
			ok = true
		}
	}
	if ok { // undo with the real master key
		body, _ = json.Marshal(map[string]any{"secret": b.MasterKey(), "target": banTargets[b], "banned": false})
		cl.Send(&mqtt.Publish{Header: mqtt.Header{QOS: 1}, MessageID: 10, Topic: []byte("emitter/keyban/"), Payload: body})
		cl.Barrier(8 * time.Second)
	}
	return ok
}

// mask computes the plaintext xor mask (or block swap) the attacker applies for a field-level operation.
func applyTamper(raw []byte, cs *tamperCase, plain security.Key) []byte {
	out := append([]byte{}, raw...)
	m := make([]byte, 24)
	switch cs.Op.F {
	case "perm":
		var l string
		json.Unmarshal(cs.Op.Arg, &l)
		m[15] = bk.Perms(l)
	case "exact":
		m[12] = 0x80
	case "lit":
		var i int
		json.Unmarshal(cs.Op.Arg, &i)
		b := 22 - (i - 1)
		m[12+(23-b)/8] = 1 << uint(b%8)
	case "target":
		var w []string
		json.Unmarshal(cs.Op.Arg, &w)
		old := hash.OfString(targetString(cs.Key.Target.W))
		binary.BigEndian.PutUint32(m[16:20], old^hash.OfString(targetString(w)))
	case "expiry":
		var e string
		json.Unmarshal(cs.Op.Arg, &e)
		want := security.Key(make([]byte, 24))
		if e == "future" {
			want.SetExpires(time.Now().Add(2 * time.Hour))
		} else {
			want.SetExpires(time.Unix(0, 0))
		}
		for i := 20; i < 24; i++ {
			m[i] = plain[i] ^ want[i]
		}
	case "id":
		var f string
		json.Unmarshal(cs.Op.Arg, &f)
		m[map[string]int{"salt": 1, "master": 3, "contract": 7, "sig": 11}[f]] = 1
	case "swap":
		var x int
		json.Unmarshal(cs.Op.Arg, &x)
		i, j := (x/10-1)*8, (x%10-1)*8
		for k := 0; k < 8; k++ {
			out[i+k], out[j+k] = out[j+k], out[i+k]
		}
		return out
	}
	for i := range out {
		out[i] ^= m[i]
	}
	return out
}

// RunC12 is the C12 check.
func RunC12(c *core.Ctx) {
	c.Level = "exploration"
	rng := rand.New(rand.NewSource(c.Seed))
	brokers := map[int]*bk.Broker{}
	for v := 1; v <= 3; v++ {
		b, err := bk.New(bk.Opts{LicenseVer: v, Storage: "noop"})
		if err != nil {
			core.Fatalf("broker (license v%d): %v", v, err)
		}
		defer b.Close()
		brokers[v] = b
	}
	var probes []tprobe
	var cases []tamperCase
	var expected int64
	r, err := tlc.Run(tlc.Opts{SpecDir: core.SpecDir(), Module: "MC_Tamper", Cfg: fmt.Sprintf("CONSTANT Tier = %q\nINIT Init\nNEXT Next\n", c.Tier), Workers: 1,
		OnTag: func(tag, js string) {
			switch tag {
			case "TAMPER":
				var cs tamperCase
				if err := json.Unmarshal([]byte(js), &cs); err != nil {
					core.Fatalf("TAMPER: %v", err)
				}
				cases = append(cases, cs)
			case "PROBES":
				json.Unmarshal([]byte(js), &probes)
			case "COUNT":
				var x struct{ N int64 }
				json.Unmarshal([]byte(js), &x)
				expected = x.N
			}
		}})
	if err != nil || !r.OK() {
		core.Fatalf("MC_Tamper: %v %s\n%s", err, r.Brief(), core.Tail(r.Out, 2000))
	}
	if len(cases) == 0 || int64(len(cases)) != expected || len(probes) == 0 {
		core.Fatalf("received %d cases / %d probes from TLC, the grid has %d", len(cases), len(probes), expected)
	}
	var evals, nontrivial, streamGains, charSubs, banGains int64
	// (key string, its grants when presented alone) per license, for the concurrent stage
	type seqGrants struct {
		key string
		g   map[string]bool
	}
	keep := map[int][]seqGrants{}
	verdict := func(v int, what string, orig, mod string, gained []string, predicted map[string]bool, cs any) {
		if len(gained) == 0 {
			return
		}
		if len(gained) == 1 && gained[0] == "keyban" && c.Known("keyban_skips_contract_validation") {
			banGains++
			return
		}
		var rest []string
		for _, g := range gained {
			if g != "keyban" && g != "mint x/y/" {
				rest = append(rest, g)
			}
		}
		if v >= 2 && len(rest) < len(gained) && predicted != nil {
			predicted["keyban"], predicted["mint x/y/"] = true, true // a stream cipher lets the attacker write the master permission byte
		}
		explained := v >= 2
		if predicted != nil {
			for _, g := range gained {
				if !predicted[g] {
					explained = false
				}
			}
		}
		if explained && c.Known("stream_malleable") {
			streamGains++
			return
		}
		replay, _ := json.Marshal(map[string]any{"e": "tamper", "license": v, "what": what, "original_key": orig, "modified_key": mod, "gained": gained, "case": cs})
		c.Violation(fmt.Sprintf("license v%d: %s turns key %s into %s which additionally grants %v", v, what, orig, mod, gained), replay)
	}
	for i := range cases {
		cs := &cases[i]
		for v := 1; v <= 3; v++ {
			b := brokers[v]
			k := Key{Decrypts: true, Contract: "own", SigOK: true, MasterOK: true, Perms: cs.Key.Perms, Expiry: cs.Key.Expiry, Target: cs.Key.Target}
			ks, err := Mint(b, k, uint16(0x1234+i))
			if err != nil {
				core.Fatalf("mint: %v", err)
			}
			plain, _ := b.Cipher.DecryptKey([]byte(ks))
			base := grants(b, ks, probes)
			// the real base grants must be what the model says (else the model of the untampered key is wrong)
			want := map[string]bool{}
			for _, p := range cs.Base {
				want[p.String()] = true
			}
			if len(want) != len(base) {
				core.Fatalf("base grants of the untampered key differ from the model (license v%d, key %+v): real %v model %v", v, cs.Key, keys(base), keys(want))
			}
			raw, err := base64.RawURLEncoding.DecodeString(ks)
			if err != nil || len(raw) != 24 {
				core.Fatalf("issued key is not 24 bytes of base64: %q", ks)
			}
			mod := base64.RawURLEncoding.EncodeToString(applyTamper(raw, cs, plain))
			after := grants(b, mod, probes)
			if i%7 == v%7 && len(keep[v]) < 800 {
				keep[v] = append(keep[v], seqGrants{ks, base}, seqGrants{mod, after})
			}
			var gained []string
			for g := range after {
				if !base[g] {
					gained = append(gained, g)
				}
			}
			sort.Strings(gained)
			pred := map[string]bool{}
			for _, p := range cs.GainStream {
				pred[p.String()] = true
			}
			evals++
			if len(cs.GainStream) > 0 {
				nontrivial++
			}
			verdict(v, fmt.Sprintf("field-level tamper %s(%s)", cs.Op.F, cs.Op.Arg), ks, mod, gained, pred, cs)
		}
		if i%211 == 0 {
			c.Sample(cs)
		}
	}
	// beyond the model: every single-character substitution at seeded positions, and seeded multi-byte xor masks
	alphabet := "ABCDEFGHIJKLMNOPQRSTUVWXYZabcdefghijklmnopqrstuvwxyz0123456789-_"
	perKey := 3 * 8 * 255
	if !c.Quick() {
		perKey = 3 * 8 * 255 * 2
	}
	for v := 1; v <= 3; v++ {
		b := brokers[v]
		for _, shape := range []struct {
			perms  []string
			target Chan
		}{{[]string{"r"}, Chan{W: []string{"a"}}}, {[]string{"r", "w"}, Chan{W: []string{"a", "b"}}}, {[]string{"w"}, Chan{W: []string{"a"}, Hash: true}}} {
			ks, _ := Mint(b, Key{Decrypts: true, Contract: "own", SigOK: true, MasterOK: true, Perms: shape.perms, Expiry: "none", Target: shape.target}, uint16(rng.Intn(30000)))
			base := grants(b, ks, probes)
			for n := 0; n < perKey; n++ {
				pos, ch := rng.Intn(32), rng.Intn(63)
				sub := alphabet[ch]
				if sub == ks[pos] {
					sub = alphabet[63]
				}
				mod := ks[:pos] + string(sub) + ks[pos+1:]
				if n%3 == 2 { // every xor value on a byte of the block that holds signature, path and permissions
					raw, _ := base64.RawURLEncoding.DecodeString(ks)
					raw[8+(n/3)%8] ^= byte(1 + (n/24)%255)
					mod = base64.RawURLEncoding.EncodeToString(raw)
				} else if n%5 == 4 { // multi-byte xor mask
					raw, _ := base64.RawURLEncoding.DecodeString(ks)
					for j := 0; j < 1+rng.Intn(4); j++ {
						raw[rng.Intn(24)] ^= byte(1 + rng.Intn(255))
					}
					mod = base64.RawURLEncoding.EncodeToString(raw)
				}
				after := grants(b, mod, probes)
				var gained []string
				for g := range after {
					if !base[g] {
						gained = append(gained, g)
					}
				}
				sort.Strings(gained)
				charSubs++
				verdict(v, "character substitution / xor mask", ks, mod, gained, nil, map[string]any{"perms": shape.perms, "target": shape.target.String()})
			}
		}
	}
	// splices: the attacker holds TWO keys issued by the real keygen (CreateKey) for the same contract and replaces a byte
	// range of one by the same range of the other (all 300 ranges, which include every combination of whole 8-byte
	// blocks that is contiguous, plus blocks 0+2).  The result may grant what either key granted, nothing more.
	var splices int64
	type pairShape struct{ ta, pa, tb, pb string }
	pairs := []pairShape{{"a/", "r", "b/", "rw"}, {"a/b/", "r", "a/", "w"}, {"a/", "rl", "b/b/", "rwslp"}, {"a/#/", "r", "b/", "w"}}
	for v := 1; v <= 3; v++ {
		b := brokers[v]
		for _, ps := range pairs {
			ka, err1 := b.Key(ps.ta, ps.pa, time.Unix(0, 0))
			kb, err2 := b.Key(ps.tb, ps.pb, time.Unix(0, 0))
			if err1 != nil || err2 != nil {
				core.Fatalf("keygen: %v %v", err1, err2)
			}
			ra, _ := base64.RawURLEncoding.DecodeString(ka)
			rb, _ := base64.RawURLEncoding.DecodeString(kb)
			pa, _ := b.Cipher.DecryptKey([]byte(ka))
			pb, _ := b.Cipher.DecryptKey([]byte(kb))
			base := grants(b, ka, probes)
			for g := range grants(b, kb, probes) {
				base[g] = true
			}
			type rng2 struct{ lo, hi, lo2, hi2 int }
			var ranges []rng2
			for lo := 0; lo < 24; lo++ {
				for hi := lo + 1; hi <= 24; hi++ {
					ranges = append(ranges, rng2{lo, hi, 0, 0})
				}
			}
			ranges = append(ranges, rng2{0, 8, 16, 24})
			for _, r := range ranges {
				mod, plain := append([]byte{}, ra...), append(security.Key{}, pa...)
				copy(mod[r.lo:r.hi], rb[r.lo:r.hi])
				copy(mod[r.lo2:r.hi2], rb[r.lo2:r.hi2])
				copy(plain[r.lo:r.hi], pb[r.lo:r.hi])
				copy(plain[r.lo2:r.hi2], pb[r.lo2:r.hi2])
				ms := base64.RawURLEncoding.EncodeToString(mod)
				if ms == ka || ms == kb {
					continue
				}
				var gained []string
				for g := range grants(b, ms, probes) {
					if !base[g] {
						gained = append(gained, g)
					}
				}
				sort.Strings(gained)
				// under the stream ciphers (v2: key-independent key stream, v3: salted) a splice is an xor of the range with a
				// mask the attacker does not even need to know: whatever it gains is the listed finding stream_malleable;
				// under v1 (block cipher chained to the per-key salt) every spliced block is noise: nothing may be gained
				var pred map[string]bool
				_ = plain
				splices++
				verdict(v, fmt.Sprintf("splice of bytes [%d,%d)+[%d,%d) from a second issued key (%s %s)", r.lo, r.hi, r.lo2, r.hi2, ps.tb, ps.pb), ka, ms, gained, pred, map[string]any{"a": ps.ta + " " + ps.pa, "b": ps.tb + " " + ps.pb, "other_key": kb})
			}
		}
	}
	// length-changing modifications: a string that is not 32 characters is no key at all (whatever the cipher): every
	// truncation, every deletion of one character, appended and inserted characters - of keys without expiry, expiring
	// in the future and already expired - must grant NOTHING (no listed finding explains a grant here)
	var lengthMods int64
	for v := 1; v <= 3; v++ {
		b := brokers[v]
		for si, exp := range []string{"none", "future", "past"} {
			ks, _ := Mint(b, Key{Decrypts: true, Contract: "own", SigOK: true, MasterOK: true, Perms: []string{"r", "w"}, Expiry: exp, Target: Chan{W: []string{"a"}}}, uint16(900+si))
			var mods []string
			for n := 0; n < 32; n++ {
				mods = append(mods, ks[:n], ks[:n]+ks[n+1:], ks[:n]+"A"+ks[n:])
			}
			mods = append(mods, ks+"A", ks+"AA", ks+ks[:4], ks+"=", ks+"==", "A"+ks, ks[1:]+"A"+"A")
			for _, mod := range mods {
				if len(mod) == 32 {
					continue
				}
				lengthMods++
				if after := grants(b, mod, probes); len(after) > 0 {
					replay, _ := json.Marshal(map[string]any{"e": "length-tamper", "license": v, "original_key": ks, "expiry": exp, "modified_key": mod, "granted": keys(after)})
					c.Violation(fmt.Sprintf("license v%d: the %d-character string %q (made from an issued key expiring %q) is accepted as a key and grants %v", v, len(mod), mod, exp, keys(after)), replay)
				}
			}
		}
	}
	c.Set("length_changing_modifications", lengthMods)
	// concurrent use: a modified key presented while other connections present issued (stronger) keys. Whatever the
	// broker shares between authorizations (cipher state, decrypt buffers, memoized keys), the grants of a string are
	// those it has when presented alone.
	var concN, concBad int64
	var cmu sync.Mutex
	for v := 1; v <= 3; v++ {
		ks := keep[v]
		if len(ks) == 0 {
			continue
		}
		b := brokers[v]
		strong, _ := Mint(b, Key{Decrypts: true, Contract: "own", SigOK: true, MasterOK: true, Perms: []string{"r", "w", "s", "l", "p"}, Expiry: "none", Target: Chan{Hash: true}}, uint16(4000+v))
		ks = append(ks, seqGrants{strong, grants(b, strong, probes)})
		rounds := 30000
		if !c.Quick() {
			rounds = 300000
		}
		var cwg sync.WaitGroup
		for g := 0; g < 16; g++ {
			cwg.Add(1)
			go func(g int) {
				defer cwg.Done()
				r := rand.New(rand.NewSource(c.Seed*1000 + int64(g)))
				var window [3]seqGrants
				for i := 0; i < rounds; i++ {
					if i%192 == 0 {
						for j := range window {
							window[j] = ks[r.Intn(len(ks))]
						}
						window[r.Intn(3)] = ks[len(ks)-1] // the strong key is always somebody's
					}
					x := window[r.Intn(len(window))]
					p := probes[r.Intn(len(probes))]
					_, _, real := b.Svc.Authorize(security.ParseChannel([]byte(x.key+"/"+p.Req.String())), permOf(p.Op))
					if real != x.g[p.String()] {
						cmu.Lock()
						concBad++
						if concBad <= 3 {
							replay, _ := json.Marshal(map[string]any{"e": "concurrent-tamper", "license": v, "key": x.key, "probe": p.String(), "alone": x.g[p.String()], "concurrent": real, "goroutines": 16})
							c.Violation(fmt.Sprintf("license v%d: key string %s is answered %v for %q while other connections present other keys, and %v when presented alone", v, x.key, real, p.String(), x.g[p.String()]), replay)
						}
						cmu.Unlock()
					}
				}
			}(g)
		}
		cwg.Wait()
		concN += int64(16 * rounds)
	}
	c.Set("concurrent_authorizations", concN)
	c.Set("two_key_splices", splices)
	c.Set("evaluations", evals+charSubs+splices)
	c.Set("model_tamper_cases", int64(len(cases)))
	c.Set("byte_level_mutations", charSubs)
	c.Set("distinct_nontrivial", nontrivial)
	c.Set("gains_explained_by_stream_malleable", streamGains)
	c.Set("gains_explained_by_keyban_finding", banGains)
	c.Set("rule", "TLC enumerates issued key shapes (7 masks x 6 targets x 3 expiries) x field-level tamper operations (toggle each permission, the exact bit, each path bit; re-target the stored hash; rewrite the expiry; touch salt/master/contract/signature; swap 8-byte blocks) and the grants gained under an authenticated, a block and a stream cipher; each is concretised as a byte operation on the real 32-character key under license v1, v2, v3 and decided by the real Service.Authorize over 30 probes; plus seeded single-character substitutions and multi-byte xor masks, and every byte-range splice between two keys issued by CreateKey; non-trivial = cases where the model predicts a gain under a stream cipher")
	c.Assume = append(c.Assume, "bounded Dolev-Yao style attacker (field-level operations, character substitutions, xor masks, block swaps of one issued key, byte-range splices between two keys issued by the real keygen); no cryptanalysis",
		"under XTEA a garbled block carries the right 32-bit signature / target hash with probability 2^-32 per attempt: excluded")
	c.Finish()
}

func keys(m map[string]bool) []string {
	var out []string
	for k := range m {
		out = append(out, k)
	}
	sort.Strings(out)
	return out
}
