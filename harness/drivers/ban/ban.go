// Package ban binds spec/Ban.tla to real brokers: emitter/keyban/ requests, uses of the key, restarts on the same
// state directory and full-state gossip into a second broker (property C14).
package ban

import (
	"encoding/json"
	"fmt"
	"github.com/emitter-io/emitter/internal/security"
	"math/rand"
	"os"
	"sort"
	"strings"
	"sync"
	"time"

	"github.com/emitter-io/emitter/internal/network/mqtt"
	"github.com/emitter-io/emitter/verif/bk"
	"github.com/emitter-io/emitter/verif/core"
	"github.com/emitter-io/emitter/verif/tlc"
)

type action struct {
	N    string `json:"n"`
	B    string `json:"b"`
	K    string `json:"k"`
	Op   string `json:"op"`
	From string `json:"from"`
	To   string `json:"to"`
}

type node struct {
	b    *bk.Broker
	cl   *bk.Client
	dir  string
	name string
	lic  int
	mid  uint16
	solo bool // a broker configured without a cluster section
}

func (n *node) start() error {
	b, err := bk.New(bk.Opts{Dir: n.dir, KeepDir: true, NodeName: n.name, LicenseVer: n.lic, Storage: "noop", NoCluster: n.solo})
	if err != nil {
		return err
	}
	n.b = b
	n.cl = b.Attach()
	n.cl.Send(&mqtt.Connect{ClientID: []byte("c-" + n.name)})
	_, err = n.cl.Barrier(8 * time.Second)
	return err
}

func (n *node) request(topic string, body any) ([]bk.Pkt, error) {
	n.mid++
	b, _ := json.Marshal(body)
	n.cl.Send(&mqtt.Publish{Header: mqtt.Header{QOS: 1}, MessageID: n.mid, Topic: []byte(topic), Payload: b})
	pk, err := n.cl.Barrier(8 * time.Second)
	var out []bk.Pkt
	for _, m := range pk {
		out = append(out, bk.Abstract(m))
	}
	return out, err
}

var replayMu sync.Mutex // brokers of one replay share ports / directories; keep replays sequential per process slot

// ReplaySolo executes the b1 part of a behaviour on ONE broker configured without a cluster section: bans live in the
// cluster state, which such a broker does not have.  A ban request there may be refused (not acknowledged: the model
// does nothing) - but if it is acknowledged it must be in force like anywhere else.
func ReplaySolo(walk []json.RawMessage, label string, lic int) (*core.Trace, error) {
	root, err := os.MkdirTemp("", "vbansolo-")
	if err != nil {
		return nil, err
	}
	defer os.RemoveAll(root)
	n := &node{dir: root + "/b1", name: "00:00:00:00:0b:09", lic: lic, solo: true}
	if err := n.start(); err != nil {
		return nil, fmt.Errorf("start: %v", err)
	}
	defer func() {
		if n.b != nil {
			n.b.Close()
		}
	}()
	keys := map[string]string{}
	for _, k := range []string{"kA", "kB"} {
		s, err := n.b.Key("#/", "rw", time.Unix(0, 0))
		if err != nil {
			return nil, err
		}
		keys[k] = s
	}
	master := n.b.MasterKey()
	state := func() map[string]map[string]bool {
		out := map[string]map[string]bool{"b1": {}, "b2": {}}
		for k, ks := range keys {
			_, _, ok := n.b.Svc.Authorize(security.ParseChannel([]byte(ks+"/use/"+k+"/")), security.AllowRead)
			out["b1"][k], out["b2"][k] = ok, true // (b2 does not exist: never banned anywhere)
		}
		return out
	}
	tr := &core.Trace{Label: label}
	tr.Events = append(tr.Events, core.Ev(map[string]any{"e": "reset", "license": lic, "solo": true}))
	for _, raw := range walk {
		var a action
		if err := json.Unmarshal(raw, &a); err != nil {
			return nil, err
		}
		if a.B != "b1" {
			continue
		}
		switch a.N {
		case "ban", "unban":
			pk, err := n.request("emitter/keyban/", map[string]any{"secret": master, "target": keys[a.K], "banned": a.N == "ban"})
			status := 0
			for _, p := range pk {
				if p.T == "resp" && p.Api == "keyban" {
					status = p.Code
				}
			}
			if err != nil || status != 200 {
				// not acknowledged (the connection may have been closed): a new connection for what follows
				if err != nil {
					n.cl = n.b.Attach()
					n.cl.Send(&mqtt.Connect{ClientID: []byte("c-again")})
					if _, err := n.cl.Barrier(8 * time.Second); err != nil {
						return nil, fmt.Errorf("reconnect: %v", err)
					}
				}
				tr.Events = append(tr.Events, core.Ev(map[string]any{"e": "ban-refused", "b": "b1", "k": a.K, "state": state()}))
				continue
			}
			tr.Events = append(tr.Events, core.Ev(map[string]any{"e": a.N, "b": "b1", "k": a.K, "status": status, "state": state()}))
		case "use":
			ok := true
			n.mid++
			n.cl.Send(&mqtt.Publish{Header: mqtt.Header{QOS: 1}, MessageID: n.mid, Topic: []byte(keys[a.K] + "/use/" + a.K + "/"), Payload: []byte("x")})
			pk, err := n.cl.Barrier(8 * time.Second)
			if err != nil {
				return nil, fmt.Errorf("use: %v", err)
			}
			for _, m := range pk {
				if p := bk.Abstract(m); p.T == "err" {
					ok = false
				}
			}
			tr.Events = append(tr.Events, core.Ev(map[string]any{"e": "use", "b": "b1", "k": a.K, "op": "pub", "ok": ok, "state": state()}))
		}
	}
	return tr, nil
}

// Replay executes one behaviour on two real brokers.
func Replay(walk []json.RawMessage, label string, lic int) (*core.Trace, error) {
	root, err := os.MkdirTemp("", "vban-")
	if err != nil {
		return nil, err
	}
	defer os.RemoveAll(root)
	nodes := map[string]*node{
		"b1": {dir: root + "/b1", name: "00:00:00:00:0b:01", lic: lic},
		"b2": {dir: root + "/b2", name: "00:00:00:00:0b:02", lic: lic},
	}
	for _, n := range nodes {
		if err := n.start(); err != nil {
			return nil, fmt.Errorf("start: %v", err)
		}
	}
	defer func() {
		for _, n := range nodes {
			if n.b != nil {
				n.b.Close()
			}
		}
	}()
	// the same license on both brokers: keys minted on b1 are valid on b2
	keys := map[string]string{}
	for _, k := range []string{"kA", "kB"} {
		s, err := nodes["b1"].b.Key("#/", "rw", time.Unix(0, 0))
		if err != nil {
			return nil, err
		}
		keys[k] = s
	}
	master := nodes["b1"].b.MasterKey()
	tr := &core.Trace{Label: label}
	tr.Events = append(tr.Events, core.Ev(map[string]any{"e": "reset", "license": lic}))
	// after every step: is each key accepted on each broker right now?  (Service.Authorize, what every request starts with)
	state := func() map[string]map[string]bool {
		out := map[string]map[string]bool{}
		for bn, n := range nodes {
			out[bn] = map[string]bool{}
			for k, ks := range keys {
				_, _, ok := n.b.Svc.Authorize(security.ParseChannel([]byte(ks+"/use/"+k+"/")), security.AllowRead)
				out[bn][k] = ok
			}
		}
		return out
	}
	for _, raw := range walk {
		var a action
		if err := json.Unmarshal(raw, &a); err != nil {
			return nil, err
		}
		if len(tr.Events) > 1 {
			// the observation belongs to the previous event (taken now so that a failed step returns early without it)
		}
		switch a.N {
		case "ban", "unban":
			n := nodes[a.B]
			pk, err := n.request("emitter/keyban/", map[string]any{"secret": master, "target": keys[a.K], "banned": a.N == "ban"})
			if err != nil {
				return nil, fmt.Errorf("keyban: %v", err)
			}
			status := 0
			for _, p := range pk {
				if p.T == "resp" && p.Api == "keyban" {
					status = p.Code
				}
			}
			tr.Events = append(tr.Events, core.Ev(map[string]any{"e": a.N, "b": a.B, "k": a.K, "status": status, "state": state()}))
		case "use":
			n := nodes[a.B]
			ok := true
			n.mid++
			if a.Op == "sub" {
				n.cl.Send(&mqtt.Subscribe{MessageID: n.mid, Subscriptions: []mqtt.TopicQOSTuple{{Topic: []byte(keys[a.K] + "/use/" + a.K + "/")}}})
			} else {
				n.cl.Send(&mqtt.Publish{Header: mqtt.Header{QOS: 1}, MessageID: n.mid, Topic: []byte(keys[a.K] + "/use/" + a.K + "/"), Payload: []byte("x")})
			}
			pk, err := n.cl.Barrier(8 * time.Second)
			if err != nil {
				return nil, fmt.Errorf("use: %v", err)
			}
			for _, m := range pk {
				p := bk.Abstract(m)
				if p.T == "err" || (p.T == "suback" && p.Code == 128) {
					ok = false
				}
			}
			tr.Events = append(tr.Events, core.Ev(map[string]any{"e": "use", "b": a.B, "k": a.K, "op": a.Op, "ok": ok, "state": state()}))
		case "restart":
			n := nodes[a.B]
			n.b.Close()
			n.b = nil
			if err := n.start(); err != nil {
				// "The store always reopens" is part of the statement: a broker that cannot restart on its own directory is a verdict
				tr.Events = append(tr.Events, core.Ev(map[string]any{"e": "restart-failed", "b": a.B, "err": err.Error()}))
				return tr, nil
			}
			tr.Events = append(tr.Events, core.Ev(map[string]any{"e": "restart", "b": a.B, "state": state()}))
		case "gossip":
			src, dst := nodes[a.From], nodes[a.To]
			enc := src.b.Svc.VerifCluster().Gossip().Encode()
			if _, err := dst.b.Svc.VerifCluster().OnGossip(enc[0]); err != nil {
				return nil, fmt.Errorf("OnGossip: %v", err)
			}
			tr.Events = append(tr.Events, core.Ev(map[string]any{"e": "gossip", "from": a.From, "to": a.To, "state": state()}))
		default:
			return nil, fmt.Errorf("unknown action %q", a.N)
		}
	}
	return tr, nil
}

func cfg(keys string, maxOps int, gen string, view bool) string {
	s := fmt.Sprintf("CONSTANTS\n Brokers = {\"b1\",\"b2\"}\n BanKeys = %s\n MaxOps = %d\n Gen = %q\nINIT MCInit\nNEXT MCNext\nINVARIANTS AckedBanHolds Dump\n", keys, maxOps, gen)
	if view {
		s += "VIEW View\n"
	}
	return s
}

// Run is the C14 check.
func Run(c *core.Ctx) {
	c.Level = "model_checking"
	rng := rand.New(rand.NewSource(c.Seed))
	mcOps, edgeOps, num, depth := 6, 5, 120, 14
	if !c.Quick() {
		mcOps, edgeOps, num, depth = 7, 5, 400, 20
	}
	c.ModelCheck("MC_Ban", cfg(`{"kA","kB"}`, mcOps, "none", true), tlc.Opts{})
	g := core.NewGraph()
	c.ModelCheck("MC_Ban", cfg(`{"kA"}`, edgeOps, "edges", true), tlc.Opts{OnTag: func(tag, js string) {
		if tag == "EDGE" {
			if err := g.AddJSON(js); err != nil {
				core.Fatalf("EDGE: %v", err)
			}
		}
	}})
	walks, covered, unreach := g.Walks(`{"ban":{"b1":{"kA":{"a":0,"d":0}},"b2":{"kA":{"a":0,"d":0}}},"clock":1}`, 30, rng, 0.5)
	if unreach > 0 || covered == 0 {
		core.Fatalf("ban graph: %d edges unreachable, %d covered", unreach, covered)
	}
	c.Add("edges_exported", int64(g.Edges))
	if max := 60; c.Quick() && len(walks) > max {
		rng.Shuffle(len(walks), func(i, j int) { walks[i], walks[j] = walks[j], walks[i] })
		walks = walks[:max]
	}
	c.Add("graph_walks_replayed", int64(len(walks)))
	var lines []string
	r, err := tlc.Run(tlc.Opts{SpecDir: core.SpecDir(), Module: "MC_Ban", Cfg: cfg(`{"kA","kB"}`, depth, "sim", false), Workers: 1, SimNum: num, SimDepth: depth + 1, Seed: c.Seed,
		OnTag: func(tag, js string) {
			if tag == "BEH" {
				lines = append(lines, strings.TrimSuffix(strings.TrimSpace(js), "]"))
			}
		}})
	if err != nil || r.Violated != "" || r.ErrText != "" || r.TimedOut {
		core.Fatalf("ban simulation failed: %v %s", err, r.Brief())
	}
	sims := core.Behaviours(lines, num, rng)
	c.Add("simulated_behaviours", int64(len(sims)))
	walks = append(walks, sims...)
	var traces []*core.Trace
	var mu sync.Mutex
	var wg sync.WaitGroup
	sem := make(chan struct{}, 6)
	var machinery []string
	for i, w := range walks {
		wg.Add(1)
		sem <- struct{}{}
		go func(i int, w []json.RawMessage) {
			defer wg.Done()
			defer func() { <-sem }()
			var t *core.Trace
			var err error
			if i%6 == 5 {
				t, err = ReplaySolo(w, fmt.Sprintf("ban-beh-%d-solo", i), 1+(i+int(c.Seed))%3)
			} else {
				t, err = Replay(w, fmt.Sprintf("ban-beh-%d", i), 1+(i+int(c.Seed))%3)
			}
			mu.Lock()
			defer mu.Unlock()
			if err != nil {
				machinery = append(machinery, err.Error())
				return
			}
			traces = append(traces, t)
		}(i, w)
	}
	wg.Wait()
	if len(machinery) > 0 {
		core.Fatalf("%d behaviours could not be replayed, first: %s", len(machinery), machinery[0])
	}
	sort.Slice(traces, func(i, j int) bool { return traces[i].Label < traces[j].Label })
	var nontrivial int64
	for _, t := range traces {
		c.Add("evaluations", int64(len(t.Events)-1))
		s := ""
		for _, e := range t.Events {
			s += string(e)
		}
		if strings.Contains(s, `"ok":false`) && strings.Contains(s, `"ok":true`) {
			nontrivial++
		}
	}
	if len(traces) > 0 {
		t := traces[rng.Intn(len(traces))]
		var head []json.RawMessage
		for i, e := range t.Events {
			if i < 10 {
				head = append(head, e)
			}
		}
		c.Sample(map[string]any{"label": t.Label, "events_head": head})
	}
	rej := c.ValidateTraces(traces, core.ValidateOpts{Module: "Ban_Trace", Cfg: "CONSTANTS\n Brokers = {\"b1\",\"b2\"}\n BanKeys = {\"kA\",\"kB\"}\nINIT TraceInit\nNEXT TraceNext\nCONSTRAINT MarkC\nPOSTCONDITION AllConsumed\nCHECK_DEADLOCK FALSE\n", ChunkSize: 3000})
	c.ReportRejections(rej, "a key was accepted while banned / refused while not banned (after an acknowledged ban or unban, a restart, or a merged gossip)")
	c.Set("distinct_nontrivial", nontrivial)
	c.Set("rule", "TLC-generated sequences of ban / unban / use (subscribe or publish) / restart / full-state gossip on two brokers and two keys (all edges of the one-key state graph as covering walks + simulated long behaviours) executed on real brokers (emitter/keyban/ with a real master key, Close + NewService on the same cluster directory, Gossip().Encode() -> OnGossip); non-trivial = a behaviour in which the key is both accepted and refused at different points")
	c.Assume = append(c.Assume, "the wall clock is strictly increasing between two ban operations (ns resolution)", "gossip = full-state exchange delivered by the harness (the mesh transport is C05's subject)")
	c.Finish()
}
