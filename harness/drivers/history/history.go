// Package history binds spec/History.tla to the real storage providers (property C06).
package history

import (
	"bytes"
	"encoding/json"
	"fmt"
	"math/rand"
	"os"
	"strings"
	"sync"
	"time"

	"github.com/emitter-io/emitter/internal/message"
	"github.com/emitter-io/emitter/internal/provider/storage"
	"github.com/emitter-io/emitter/internal/security/hash"
	"github.com/emitter-io/emitter/verif/core"
	"github.com/emitter-io/emitter/verif/tlc"
)

type storeAct struct {
	N    string   `json:"n"`
	C    string   `json:"c"`
	W    []string `json:"w"`
	T    int64    `json:"t"`
	Live bool     `json:"live"`
	Big  bool     `json:"big"`
}

type grid struct {
	Filters [][]string `json:"filters"`
	Windows [][2]int64 `json:"windows"`
	Limits  []int      `json:"limits"`
}

type provider struct {
	name string
	st   storage.Storage
}

func ssid(contract uint32, w []string) message.Ssid {
	q := make([]uint32, 0, len(w))
	for _, x := range w {
		q = append(q, hash.OfString(x))
	}
	return message.NewSsid(contract, q)
}

// replay stores the behaviour into the provider (in a fresh pair of contracts) and runs sampled queries after
// every store and the whole grid at the end.
func replay(p *provider, idx int, walk []json.RawMessage, g *grid, rng *rand.Rand, label string) *core.Trace {
	c1 := uint32(0x10000000 + idx)
	c2 := c1 ^ hash.OfString("a") ^ hash.OfString("b") // C1^a = C2^b and C1^b = C2^a: colliding key prefixes
	contract := map[string]uint32{"C1": c1, "C2": c2}
	// how old the behaviour's messages are, and with that the TTLs that make a message "live" or "expired": minutes,
	// weeks beyond the default retention period of retained messages (30 days), more than a year
	age := []int64{5000, 45 * 86400, 400 * 86400}[idx%3]
	base := time.Now().Unix() - age
	liveTTL, deadTTL := uint32(age+1000000), uint32(10)
	if idx%2 == 1 && age > 100000 {
		deadTTL = uint32(age - 50000) // expired only recently
	}
	ids := map[string]int{}
	bodies := map[string]string{} // id -> channel + payload as stored
	var stored []message.ID
	tr := &core.Trace{Label: label}
	tr.Events = append(tr.Events, core.Ev(map[string]any{"e": "reset", "provider": p.name}))
	query := func(c string, f []string, win [2]int64, limit, after int) []int {
		var from, until time.Time = time.Unix(0, 0), time.Unix(0, 0)
		if win[0] > 0 {
			from = time.Unix(base+win[0], 0)
		}
		if win[1] < 9 {
			until = time.Unix(base+win[1], 0)
		}
		var start message.ID
		if after > 0 {
			start = stored[after-1]
		}
		frame, err := p.st.Query(ssid(contract[c], f), from, until, start, limit)
		if err != nil {
			core.Fatalf("%s Query: %v", p.name, err)
		}
		res, unknown := []int{}, 0
		for _, m := range frame {
			if s, ok := ids[string(m.ID)]; ok && bodies[string(m.ID)] == string(m.Channel)+"|"+string(m.Payload) {
				res = append(res, s)
			} else {
				unknown++ // an id that was never stored, or a stored id with another channel / payload
			}
		}
		tr.Events = append(tr.Events, core.Ev(map[string]any{"e": "query", "c": c, "f": f, "from": win[0], "until": win[1], "limit": limit, "after": after, "res": res, "unknown": unknown}))
		return res
	}
	for si, raw := range walk {
		var a storeAct
		if err := json.Unmarshal(raw, &a); err != nil || a.N != "store" {
			core.Fatalf("bad action %s", raw)
		}
		s := ssid(contract[a.C], a.W)
		id := message.NewID(s)
		id.SetTime(base + a.T)
		size := 16
		if a.Big {
			size = 40 * 1024
		}
		m := &message.Message{ID: id, Channel: []byte(strings.Join(a.W, "/") + "/"), Payload: []byte(strings.Repeat("p", size)), TTL: liveTTL}
		if !a.Live {
			m.TTL = deadTTL // time + ttl < now
		}
		if err := p.st.Store(m); err != nil {
			core.Fatalf("%s Store: %v", p.name, err)
		}
		stored = append(stored, id)
		ids[string(id)] = len(stored)
		bodies[string(id)] = string(m.Channel) + "|" + string(m.Payload)
		tr.Events = append(tr.Events, core.Ev(map[string]any{"e": "store", "c": a.C, "w": a.W, "t": a.T, "live": a.Live, "big": a.Big}))
		last := si == len(walk)-1
		for _, c := range []string{"C1", "C2"} {
			for _, f := range g.Filters {
				for _, w := range g.Windows {
					for _, lim := range g.Limits {
						if !last && rng.Intn(12) != 0 {
							continue
						}
						res := query(c, f, w, lim, 0)
						// continuation pages: from every id this query returned (the statement: "continuation from any returned id")
						for _, after := range res {
							if last || rng.Intn(3) == 0 {
								query(c, f, w, lim, after)
							}
						}
					}
				}
			}
		}
	}
	return tr
}

// concurrentStores: several publishers store at the same time on one provider (as connection goroutines do); afterwards
// every (contract, channel) is queried with a limit above what was stored: exactly the stored messages, each with its
// own channel and payload (the stores are logged in completion order; with such queries their order does not matter).
func concurrentStores(p *provider, idx int, rng *rand.Rand, label string) *core.Trace {
	c1 := uint32(0x20000000 + idx)
	c2 := c1 ^ hash.OfString("a") ^ hash.OfString("b")
	contract := map[string]uint32{"C1": c1, "C2": c2}
	base := time.Now().Unix() - 5000
	type rec struct {
		c    string
		w    []string
		t    int64
		id   message.ID
		body string
	}
	chans := [][]string{{"a"}, {"a", "b"}, {"b"}, {"a", "b", "c"}}
	var mu sync.Mutex
	var done []rec
	var wg sync.WaitGroup
	for g := 0; g < 8; g++ {
		wg.Add(1)
		seed := rng.Int63()
		go func(g int) {
			defer wg.Done()
			r := rand.New(rand.NewSource(seed))
			for i := 0; i < 6; i++ {
				cn := []string{"C1", "C2"}[r.Intn(2)]
				w := chans[r.Intn(len(chans))]
				t := int64(1 + r.Intn(2))
				id := message.NewID(ssid(contract[cn], w))
				id.SetTime(base + t)
				payload := bytes.Repeat([]byte{byte('A' + g)}, []int{8, 200, 900}[r.Intn(3)]) // (all 48 together stay below the 64 KiB reply cap)
				payload = append(payload, []byte(fmt.Sprintf("|g%d-m%d", g, i))...)
				m := &message.Message{ID: id, Channel: []byte(strings.Join(w, "/") + "/"), Payload: payload, TTL: 1000000}
				if err := p.st.Store(m); err != nil {
					core.Fatalf("%s Store: %v", p.name, err)
				}
				mu.Lock()
				done = append(done, rec{cn, w, t, id, string(m.Channel) + "|" + string(payload)})
				mu.Unlock()
			}
		}(g)
	}
	wg.Wait()
	tr := &core.Trace{Label: label}
	tr.Events = append(tr.Events, core.Ev(map[string]any{"e": "reset", "provider": p.name}))
	ids, bodies := map[string]int{}, map[string]string{}
	for i, d := range done {
		ids[string(d.id)], bodies[string(d.id)] = i+1, d.body
		tr.Events = append(tr.Events, core.Ev(map[string]any{"e": "store", "c": d.c, "w": d.w, "t": d.t, "live": true, "big": false}))
	}
	for _, cn := range []string{"C1", "C2"} {
		for _, f := range [][]string{{"a"}, {"a", "b"}, {"b"}, {"a", "+"}, {"a", "b", "c"}} {
			frame, err := p.st.Query(ssid(contract[cn], f), time.Unix(0, 0), time.Unix(0, 0), nil, 1000)
			if err != nil {
				core.Fatalf("%s Query: %v", p.name, err)
			}
			res, unknown := []int{}, 0
			for _, m := range frame {
				if s, ok := ids[string(m.ID)]; ok && bodies[string(m.ID)] == string(m.Channel)+"|"+string(m.Payload) {
					res = append(res, s)
				} else {
					unknown++
				}
			}
			tr.Events = append(tr.Events, core.Ev(map[string]any{"e": "query", "c": cn, "f": f, "from": 0, "until": 9, "limit": 1000, "after": 0, "res": res, "unknown": unknown}))
		}
	}
	return tr
}

func traceCfg() string {
	return "CONSTANTS\n Collide <- StdCollide\n Cap = 1\nINIT TraceInit\nNEXT TraceNext\nCONSTRAINT MarkC\nPOSTCONDITION AllConsumed\nCHECK_DEADLOCK FALSE\n"
}

// Run is the C06 check.
func Run(c *core.Ctx) {
	c.Level = "model_checking"
	rng := rand.New(rand.NewSource(c.Seed))
	maxMsgs, num, depth := 3, 40, 7
	if !c.Quick() {
		maxMsgs, num, depth = 4, 400, 9
	}
	var g grid
	// design level: the iterator loop of SSD.lookup = the property's description, every store of <= maxMsgs messages x every query
	c.ModelCheck("MC_History", fmt.Sprintf("CONSTANTS\n Collide <- StdCollide\n Cap = 1\n MaxMsgs = %d\n Gen = \"none\"\nINIT MCInit\nNEXT MCNext\nINVARIANTS ImplIsSpec Dump\n", maxMsgs),
		tlc.Opts{OnTag: func(tag, js string) {
			if tag == "QGRID" {
				json.Unmarshal([]byte(js), &g)
			}
		}})
	if len(g.Filters) == 0 {
		core.Fatalf("no QGRID from TLC")
	}
	var lines []string
	r, err := tlc.Run(tlc.Opts{SpecDir: core.SpecDir(), Module: "MC_History", Workers: 1, SimNum: num, SimDepth: depth, Seed: c.Seed,
		Cfg: fmt.Sprintf("CONSTANTS\n Collide <- StdCollide\n Cap = 1\n MaxMsgs = %d\n Gen = \"sim\"\nINIT MCInit\nNEXT MCNext\nINVARIANTS Dump\n", depth),
		OnTag: func(tag, js string) {
			if tag == "BEH" {
				lines = append(lines, strings.TrimSuffix(strings.TrimSpace(js), "]"))
			}
		}})
	if err != nil || r.Violated != "" || r.ErrText != "" || r.TimedOut {
		core.Fatalf("history simulation failed: %v %s", err, r.Brief())
	}
	walks := core.Behaviours(lines, num, rng)
	c.Add("simulated_behaviours", int64(len(walks)))
	// real providers
	dir, err := os.MkdirTemp("", "vhist-")
	if err != nil {
		core.Fatalf("tempdir: %v", err)
	}
	defer os.RemoveAll(dir)
	ssd := storage.NewSSD(nil)
	if err := ssd.Configure(map[string]interface{}{"dir": dir}); err != nil {
		core.Fatalf("ssd: %v", err)
	}
	defer ssd.Close()
	mem := storage.NewInMemory(nil)
	if err := mem.Configure(nil); err != nil {
		core.Fatalf("inmemory: %v", err)
	}
	defer mem.Close()
	provs := []*provider{{"ssd", ssd}, {"inmemory", mem}}
	var traces []*core.Trace
	var nontrivial int64
	for i, w := range walks {
		for _, p := range provs {
			t := replay(p, i*2+int(c.Seed)*100000, w, &g, rng, fmt.Sprintf("%s-beh-%d", p.name, i))
			traces = append(traces, t)
			c.Add("evaluations", int64(len(t.Events)-1))
			if nontrivialTrace(t) {
				nontrivial++
			}
		}
	}
	// concurrent publishers on one provider
	nconc := 6
	if !c.Quick() {
		nconc = 60
	}
	for i := 0; i < nconc; i++ {
		for _, p := range provs {
			t := concurrentStores(p, 500000+i*2+int(c.Seed)*100000, rng, fmt.Sprintf("%s-concurrent-%d", p.name, i))
			traces = append(traces, t)
			c.Add("evaluations", int64(len(t.Events)-1))
		}
	}
	c.Add("concurrent_store_rounds", int64(nconc*len(provs)))
	if len(traces) > 0 {
		t := traces[rng.Intn(len(traces))]
		var head []json.RawMessage
		for i, e := range t.Events {
			if i < 8 || (i > len(t.Events)-4) {
				head = append(head, e)
			}
		}
		c.Sample(map[string]any{"label": t.Label, "events": head})
	}
	rej := c.ValidateTraces(traces, core.ValidateOpts{Module: "History_Trace", Cfg: traceCfg(), ChunkSize: 3000})
	c.ReportRejections(rej, "history query result differs from the stored, live, matching messages the property describes")
	c.Set("distinct_nontrivial", nontrivial)
	c.Set("rule", "TLC-simulated store sequences over 14 message kinds (two contracts whose key prefixes collide by construction, nested channels, two seconds, same-second bursts, an expired message, payloads near the reply cap) replayed on the real SSD and InMemory providers with ids built by message.NewID + SetTime; after every store a sample of the query grid (2 contracts x 5 filters x 5 windows x limits {0,1,2,100}, with and without a continuation id) and at the end the whole grid; non-trivial = a trace in which some query returned a non-empty strict subset of the stored messages")
	c.Assume = append(c.Assume, "expiry is exercised with timestamps already in the past at store time (no sleeping)", "the first level of a query filter is literal (the statement requires it)",
		"order inside one second is left free (the statement asks for non-decreasing time)")
	c.Finish()
}

func nontrivialTrace(t *core.Trace) bool {
	stores := 0
	for _, e := range t.Events {
		var ev struct {
			E   string `json:"e"`
			Res []int  `json:"res"`
		}
		json.Unmarshal(e, &ev)
		if ev.E == "store" {
			stores++
		}
		if ev.E == "query" && len(ev.Res) > 0 && len(ev.Res) < stores {
			return true
		}
	}
	return false
}
