// Package adapters binds spec/Sniffer.tla, spec/WsTransport.tla and the single-writer configuration of
// spec/WriteQueue.tla to the real transport adapters (property C17).
package adapters

import (
	"encoding/json"
	"fmt"
	"io"
	"math/rand"
	"net"
	"time"

	"github.com/emitter-io/emitter/internal/network/listener"
	"github.com/emitter-io/emitter/internal/network/websocket"
	"github.com/emitter-io/emitter/verif/core"
	"github.com/emitter-io/emitter/verif/drivers/wq"
	"github.com/emitter-io/emitter/verif/tlc"
)

// ---- scripted source for the sniffer ----

type scriptedSource struct {
	rem  []byte
	next int // bytes the next Read hands out
}

func (s *scriptedSource) Read(p []byte) (int, error) {
	if len(s.rem) == 0 {
		return 0, io.EOF
	}
	k := s.next
	if k > len(p) {
		k = len(p)
	}
	if k > len(s.rem) {
		k = len(s.rem)
	}
	if k < 1 {
		k = 1
	}
	copy(p, s.rem[:k])
	s.rem = s.rem[k:]
	return k, nil
}
func (s *scriptedSource) Write(p []byte) (int, error)        { return len(p), nil }
func (s *scriptedSource) Close() error                       { return nil }
func (s *scriptedSource) LocalAddr() net.Addr                { return &net.TCPAddr{} }
func (s *scriptedSource) RemoteAddr() net.Addr               { return &net.TCPAddr{} }
func (s *scriptedSource) SetDeadline(t time.Time) error      { return nil }
func (s *scriptedSource) SetReadDeadline(t time.Time) error  { return nil }
func (s *scriptedSource) SetWriteDeadline(t time.Time) error { return nil }

func ints(b []byte) []int {
	out := make([]int, len(b))
	for i, x := range b {
		out[i] = int(x)
	}
	return out
}

func replaySniffer(walk []json.RawMessage, n int, label string) *core.Trace {
	stream := make([]byte, n)
	for i := range stream {
		stream[i] = byte(i + 1)
	}
	src := &scriptedSource{rem: stream}
	conn := listener.VerifNewConn(src, 60, false)
	var rd io.Reader = conn
	tr := &core.Trace{Label: label}
	tr.Events = append(tr.Events, core.Ev(map[string]any{"e": "sreset"}))
	for _, raw := range walk {
		var a struct {
			N    string `json:"n"`
			Snif bool   `json:"snif"`
			Size int    `json:"size"`
			K    int    `json:"k"`
		}
		json.Unmarshal(raw, &a)
		switch a.N {
		case "reset":
			if a.Snif {
				rd = conn.VerifStartSniffing()
			} else {
				conn.VerifDoneSniffing()
				rd = conn
			}
			tr.Events = append(tr.Events, core.Ev(map[string]any{"e": "reset", "snif": a.Snif}))
		case "read":
			src.next = a.K
			buf := make([]byte, a.Size)
			got, err := rd.Read(buf)
			e := "nil"
			if err == io.EOF {
				e = "EOF"
			} else if err != nil {
				e = err.Error()
			}
			tr.Events = append(tr.Events, core.Ev(map[string]any{"e": "read", "size": a.Size, "k": a.K, "data": ints(buf[:got]), "err": e}))
		}
	}
	return tr
}

// ---- scripted frame source / sink for the websocket transport ----

type frame struct {
	Kind string `json:"kind"`
	Data []int  `json:"data"`
}

type msgReader struct {
	rem         []byte
	eofWithData *bool
}

func (m *msgReader) Read(p []byte) (int, error) {
	k := copy(p, m.rem)
	m.rem = m.rem[k:]
	if len(m.rem) == 0 && (k == 0 || *m.eofWithData) {
		return k, io.EOF
	}
	return k, nil
}

type msgWriter struct {
	ws  *fakeWS
	buf []byte
}

func (w *msgWriter) Write(p []byte) (int, error) { w.buf = append(w.buf, p...); return len(p), nil }
func (w *msgWriter) Close() error {
	w.ws.msgs = append(w.ws.msgs, ints(w.buf))
	return nil
}

type fakeWS struct {
	frames      []frame
	eofWithData bool
	msgs        [][]int
	kinds       []int
}

func (f *fakeWS) NextReader() (int, io.Reader, error) {
	if len(f.frames) == 0 {
		return 0, nil, io.ErrUnexpectedEOF
	}
	fr := f.frames[0]
	f.frames = f.frames[1:]
	typ := map[string]int{"bin": 2, "text": 1, "ctrl": 9}[fr.Kind]
	b := make([]byte, len(fr.Data))
	for i, x := range fr.Data {
		b[i] = byte(x)
	}
	return typ, &msgReader{rem: b, eofWithData: &f.eofWithData}, nil
}
func (f *fakeWS) NextWriter(messageType int) (io.WriteCloser, error) {
	f.kinds = append(f.kinds, messageType)
	return &msgWriter{ws: f}, nil
}
func (f *fakeWS) Close() error                       { return nil }
func (f *fakeWS) LocalAddr() net.Addr                { return &net.TCPAddr{} }
func (f *fakeWS) RemoteAddr() net.Addr               { return &net.TCPAddr{} }
func (f *fakeWS) SetReadDeadline(t time.Time) error  { return nil }
func (f *fakeWS) SetWriteDeadline(t time.Time) error { return nil }

func replayWS(walk []json.RawMessage, label string) *core.Trace {
	ws := &fakeWS{}
	var tp net.Conn
	tr := &core.Trace{Label: label}
	for _, raw := range walk {
		var a struct {
			N      string  `json:"n"`
			Frames []frame `json:"frames"`
			Size   int     `json:"size"`
			EOF    bool    `json:"eof"`
			P      []int   `json:"p"`
		}
		json.Unmarshal(raw, &a)
		switch a.N {
		case "feed":
			ws = &fakeWS{frames: a.Frames}
			tp = websocket.VerifNewTransport(ws)
			fr := a.Frames
			if fr == nil {
				fr = []frame{}
			}
			for i := range fr {
				if fr[i].Data == nil {
					fr[i].Data = []int{}
				}
			}
			tr.Events = append(tr.Events, core.Ev(map[string]any{"e": "feed", "frames": fr}))
		case "read":
			ws.eofWithData = a.EOF
			buf := make([]byte, a.Size)
			got, err := tp.Read(buf)
			e := "nil"
			if err != nil {
				e = "closed"
			}
			tr.Events = append(tr.Events, core.Ev(map[string]any{"e": "read", "size": a.Size, "eof": a.EOF, "data": ints(buf[:got]), "err": e}))
		case "write":
			b := make([]byte, len(a.P))
			for i, x := range a.P {
				b[i] = byte(x)
			}
			tp.Write(b)
			msgs := ws.msgs
			if msgs == nil {
				msgs = [][]int{}
			}
			for _, k := range ws.kinds {
				if k != 2 { // not a binary message: make the trace unexplainable
					msgs = append(msgs, []int{-1})
				}
			}
			p := a.P
			if p == nil {
				p = []int{}
			}
			tr.Events = append(tr.Events, core.Ev(map[string]any{"e": "write", "p": p, "msgs": msgs}))
		}
	}
	return tr
}

func graphWalks(c *core.Ctx, module, cfg, init string, maxLen int, rng *rand.Rand, cap int) [][]json.RawMessage {
	g := core.NewGraph()
	c.ModelCheck(module, cfg, tlc.Opts{OnTag: func(tag, js string) {
		if tag == "EDGE" {
			if err := g.AddJSON(js); err != nil {
				core.Fatalf("EDGE: %v", err)
			}
		}
	}})
	w, covered, unreach := g.Walks(init, maxLen, rng, 1)
	if unreach > 0 || covered == 0 {
		core.Fatalf("%s graph: %d edges unreachable from init, %d covered", module, unreach, covered)
	}
	c.Add("edges_exported", int64(g.Edges))
	if cap > 0 && len(w) > cap {
		rng.Shuffle(len(w), func(i, j int) { w[i], w[j] = w[j], w[i] })
		w = w[:cap]
	}
	c.Add("graph_walks_replayed", int64(len(w)))
	return w
}

// Run is the C17 check.
func Run(c *core.Ctx) {
	c.Level = "model_checking"
	rng := rand.New(rand.NewSource(c.Seed))
	n, maxBuf, sessions, wsN, wsFrames, cap := 5, 3, 2, 4, 3, 1500
	if !c.Quick() {
		n, maxBuf, sessions, wsN, wsFrames, cap = 6, 4, 3, 5, 3, 0
	}
	var nontrivial int64
	// 1. sniffer: every edge of the state graph (all chunkings x read sizes x peek depths x sessions)
	snCfg := func(gen string) string {
		return fmt.Sprintf("CONSTANTS\n N = %d\n MaxBuf = %d\n MaxSessions = %d\n Gen = %q\nINIT MCInit\nNEXT MCNext\nVIEW View\nINVARIANTS ReadsInOrder Dump\n", n, maxBuf, sessions, gen)
	}
	c.ModelCheck("MC_Sniffer", snCfg("none"), tlc.Opts{})
	stream := "["
	for i := 1; i <= n; i++ {
		if i > 1 {
			stream += ","
		}
		stream += fmt.Sprint(i)
	}
	stream += "]"
	snInit := fmt.Sprintf(`{"src":%s,"buf":[],"bufRead":0,"bufSize":0,"sniffing":false,"lastErr":"nil","alloc":false,"sessions":0}`, stream)
	var traces []*core.Trace
	for i, w := range graphWalks(c, "MC_Sniffer", snCfg("edges"), snInit, 40, rng, cap) {
		t := replaySniffer(w, n, fmt.Sprintf("sniffer-%d", i))
		traces = append(traces, t)
		c.Add("evaluations", int64(len(t.Events)))
		nontrivial++
	}
	rej := c.ValidateTraces(traces, core.ValidateOpts{Module: "Sniffer_Trace", Cfg: fmt.Sprintf("CONSTANTS\n N = %d\n MaxBuf = %d\nINIT TraceInit\nNEXT TraceNext\nCONSTRAINT MarkC\nINVARIANT TraceInv\nPOSTCONDITION AllConsumed\nCHECK_DEADLOCK FALSE\n", n, maxBuf), ChunkSize: 4000})
	c.ReportRejections(rej, "the sniffing reader did not hand the client's bytes over in order, once each")
	if len(traces) > 0 {
		c.Sample(map[string]any{"adapter": "sniffer", "events_head": head(traces[rng.Intn(len(traces))], 8)})
	}
	// 2. websocket transport: every fragmentation of the stream x read sizes x EOF styles, and writes
	wsCfg := func(gen string) string {
		return fmt.Sprintf("CONSTANTS\n N = %d\n MaxBuf = %d\n MaxFrames = %d\n Gen = %q\nINIT MCInit\nNEXT MCNext\nVIEW View\nINVARIANTS ReadsInOrder Dump\n", wsN, maxBuf, wsFrames, gen)
	}
	c.ModelCheck("MC_WsTransport", wsCfg("none"), tlc.Opts{})
	traces = nil
	for i, w := range graphWalks(c, "MC_WsTransport", wsCfg("edges"), `{"frames":[],"reader":[],"open":false,"cur":0,"sent":[],"started":false}`, 40, rng, cap) {
		t := replayWS(w, fmt.Sprintf("ws-%d", i))
		traces = append(traces, t)
		c.Add("evaluations", int64(len(t.Events)))
		nontrivial++
	}
	rej = c.ValidateTraces(traces, core.ValidateOpts{Module: "WsTransport_Trace", Cfg: fmt.Sprintf("CONSTANTS\n N = %d\n MaxBuf = %d\nINIT TraceInit\nNEXT TraceNext\nCONSTRAINT MarkC\nINVARIANT TraceInv\nPOSTCONDITION AllConsumed\nCHECK_DEADLOCK FALSE\n", wsN, maxBuf), ChunkSize: 4000})
	c.ReportRejections(rej, "the WebSocket adapter did not deliver the byte stream unchanged (or did not write one binary message per write)")
	if len(traces) > 0 {
		c.Sample(map[string]any{"adapter": "websocket", "events_head": head(traces[rng.Intn(len(traces))], 8)})
	}
	// 3. write queue, one writer and the timer: every edge (every sequence of writes x limiter outcomes x flush timings)
	k := wq.Config{Writers: []string{"w1"}, Flushers: []string{"t"}, NPackets: 3, NRounds: 3}
	nontrivial += wq.Explore(c, k, true, 0, 0, rng, "the client did not receive exactly the bytes written (direct, queued by the rate limiter, or flushed by the timer)")
	c.Set("distinct_nontrivial", nontrivial)
	c.Set("exhaustive", true)
	c.Set("rule", "every edge of three exported TLC state graphs is executed on the real adapter: (1) sniffer: streams of 5-6 position-tagged bytes, every source chunking, caller buffers 1..3(4), 1-3 sniffing sessions with arbitrary peek depth, then reads to EOF; (2) websocket transport: every fragmentation into <= 3 text/binary messages incl. empty ones and control messages, read buffers 1..3(4), EOF with or without data, writes of 0..2 bytes; (3) listener.Conn write queue with one writer (3 packets of 3..70000 bytes), every limiter outcome and every flush timing at gate granularity; every walk counts as non-trivial (each covers edges no other walk covered)")
	c.Assume = append(c.Assume, "the underlying socket returns io.EOF separately from the last data (net.TCPConn behaviour); a source that returns data together with EOF is outside the explored chunkings",
		"bytes are position-tagged so duplication, loss and reordering are all visible")
	// bulk: the write queue holding 0.3 / 1.2 / 4 / 13 MB of rate-limited writes before anything is flushed
	var bulk []*core.Trace
	for i, q := range [][2]int{{5, 60000}, {20, 60000}, {64, 65000}, {200, 65000}, {250, 5000}} { // (packet numbers are one byte)
		bulk = append(bulk, wq.Bulk(q[0], q[1], fmt.Sprintf("bulk-%d", i)))
	}
	c.Add("evaluations", int64(len(bulk)))
	rej = c.ValidateTraces(bulk, core.ValidateOpts{Module: "WriteQueue_Stress", Cfg: "INIT TraceInit\nNEXT TraceNext\nCONSTRAINT MarkC\nPOSTCONDITION AllConsumed\nCHECK_DEADLOCK FALSE\n", ChunkSize: 4})
	c.ReportRejections(rej, "with megabytes of rate-limited writes queued, the client did not receive exactly the bytes written")
	ListenerStage(c)
	c.Finish()
}

func head(t *core.Trace, n int) []json.RawMessage {
	var out []json.RawMessage
	for i, e := range t.Events {
		if i >= n {
			break
		}
		out = append(out, json.RawMessage(e))
	}
	return out
}
