package adapters

// The multiplexing listener as a whole (spec/Listener_Trace.tla): the real Listener.Match / Serve / serve and the
// real matchers over a fake root listener that hands out in-memory connections; the client's stream arrives in
// every chunking; whoever accepts the connection reads it to the end.

import (
	"fmt"
	"io"
	"math/rand"
	"net"
	"time"

	"github.com/emitter-io/emitter/internal/network/listener"
	"github.com/emitter-io/emitter/verif/core"
	"github.com/emitter-io/emitter/verif/memconn"
)

type fakeRoot struct {
	conns  chan net.Conn
	closed chan struct{}
}

func (f *fakeRoot) Accept() (net.Conn, error) {
	select {
	case c := <-f.conns:
		return c, nil
	case <-f.closed:
		return nil, listener.ErrListenerClosed
	}
}
func (f *fakeRoot) Close() error {
	select {
	case <-f.closed:
	default:
		close(f.closed)
	}
	return nil
}
func (f *fakeRoot) Addr() net.Addr { return &net.TCPAddr{} }

type matcherSpec struct {
	Kind string  `json:"kind"`
	Strs [][]int `json:"strs,omitempty"`
}

func realMatcher(m matcherSpec, strs []string) listener.Matcher {
	switch m.Kind {
	case "any":
		return listener.MatchAny()
	case "http":
		return listener.MatchHTTP()
	}
	return listener.MatchPrefix(strs...)
}

// listenerCase runs one connection through a fresh listener.
func listenerCase(sets [][]string, stream []byte, chunks []int) (map[string]any, error) {
	root := &fakeRoot{conns: make(chan net.Conn, 1), closed: make(chan struct{})}
	l := listener.VerifNewListener(root, listener.Config{FlushRate: 60})
	type acc struct {
		idx  int
		conn net.Conn
	}
	accepted := make(chan acc, 4)
	var specs [][]matcherSpec
	for si, set := range sets {
		var ms []listener.Matcher
		var sp []matcherSpec
		for _, name := range set {
			switch name {
			case "any", "http":
				sp = append(sp, matcherSpec{Kind: name})
				ms = append(ms, realMatcher(matcherSpec{Kind: name}, nil))
			default: // a prefix
				sp = append(sp, matcherSpec{Kind: "prefix", Strs: [][]int{ints([]byte(name))}})
				ms = append(ms, listener.MatchPrefix(name))
			}
		}
		specs = append(specs, sp)
		sub := l.Match(ms...)
		go func(si int, sub net.Listener) {
			for {
				c, err := sub.Accept()
				if err != nil {
					return
				}
				accepted <- acc{si + 1, c}
			}
		}(si, sub)
	}
	go l.Serve()
	defer root.Close()
	client, server := memconn.Pair()
	root.conns <- server
	off := 0
	for _, n := range chunks {
		client.Write(stream[off : off+n])
		off += n
		time.Sleep(200 * time.Microsecond)
	}
	// the client has nothing more to say: what was sent is what there is to read
	go func() { time.Sleep(2 * time.Millisecond); client.Close() }()
	ev := map[string]any{"e": "conn", "sets": specs, "stream": ints(stream), "chunks": chunks, "matched": 0, "got": []int{}}
	select {
	case a := <-accepted:
		a.conn.SetReadDeadline(time.Now().Add(3 * time.Second))
		got, _ := io.ReadAll(a.conn)
		ev["matched"], ev["got"] = a.idx, ints(got)
		a.conn.Close()
	case <-server.Closed():
		// no matcher set took it: the listener closed the connection
	case <-time.After(4 * time.Second):
		return nil, fmt.Errorf("the listener neither dispatched nor closed a connection within 4 s (sets %v, stream %q)", sets, stream)
	}
	return ev, nil
}

// ListenerStage is part of the C17 check.
func ListenerStage(c *core.Ctx) {
	rng := rand.New(rand.NewSource(c.Seed + 17))
	connect := []byte{0x10, 0x0e, 0x00, 0x04, 'M', 'Q', 'T', 'T', 0x04, 0x02, 0x00, 0x3c, 0x00, 0x02, 'c', '1'}
	streams := [][]byte{
		connect,
		append(append([]byte{}, connect...), 0x82, 0x08, 0x00, 0x01, 0x00, 0x03, 'a', '/', 'b', 0x00),
		[]byte("GET /keygen HTTP/1.1\r\nHost: x\r\n\r\n"),
		[]byte("POST /presence HTTP/1.1\r\nContent-Length: 2\r\n\r\n{}"),
		[]byte("OPTIONS * HTTP/1.1\r\n\r\n"),
		[]byte("SSH-2.0-OpenSSH_8.9\r\nmore bytes"),
		[]byte("PUTTER and others"),
		[]byte("GE"),
		[]byte("G"),
		{0x10},
		{},
	}
	for i := 0; i < 3; i++ {
		b := make([]byte, 9+rng.Intn(30))
		rng.Read(b)
		streams = append(streams, b)
	}
	configs := [][][]string{
		{{"http"}, {"any"}}, // the broker's own setup
		{{"SSH-2.0"}, {"http"}, {"any"}},
		{{"http", "MQ"}, {"\x10"}, {"any"}},
		{{"http"}, {"SSH-2.0", "\x10\x0e"}},
		{{"\x10"}, {"http"}, {"SSH-2.0", "PUT"}},
	}
	var traces []*core.Trace
	n := 0
	for ci, sets := range configs {
		for si, s := range streams {
			var chunkings [][]int
			chunkings = append(chunkings, []int{len(s)})
			if len(s) > 1 {
				one := make([]int, len(s))
				for i := range one {
					one[i] = 1
				}
				chunkings = append(chunkings, one)
				for k := 1; k < len(s) && k <= 9; k++ {
					if c.Quick() && k%3 != (ci+si)%3 {
						continue
					}
					chunkings = append(chunkings, []int{k, len(s) - k})
				}
			}
			for _, ch := range chunkings {
				ev, err := listenerCase(sets, s, ch)
				if err != nil {
					core.Fatalf("listener stage: %v", err)
				}
				n++
				traces = append(traces, &core.Trace{Label: fmt.Sprintf("listener-%d-%d-%d", ci, si, n), Events: [][]byte{core.Ev(ev)}})
			}
		}
	}
	c.Add("listener_connections", int64(n))
	c.Add("evaluations", int64(n))
	rej := c.ValidateTraces(traces, core.ValidateOpts{Module: "Listener_Trace", Cfg: "INIT TraceInit\nNEXT TraceNext\nCONSTRAINT MarkC\nPOSTCONDITION AllConsumed\nCHECK_DEADLOCK FALSE\n", ChunkSize: 100000})
	c.ReportRejections(rej, "the multiplexing listener handed a connection to the wrong protocol, or the accepted connection did not read exactly the client's bytes")
}
