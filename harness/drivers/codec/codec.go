// Package codec binds spec/Codec.tla to the real key ciphers and license codecs (property C20).
package codec

import (
	"bytes"
	"encoding/json"
	"fmt"
	"math/rand"
	"strings"
	"sync"

	"github.com/emitter-io/emitter/internal/security"
	"github.com/emitter-io/emitter/internal/security/license"
	"github.com/emitter-io/emitter/verif/core"
	"github.com/emitter-io/emitter/verif/tlc"
)

type keyClass struct {
	Salt  string `json:"salt"`
	Body  string `json:"body"`
	Perms int    `json:"perms"`
}
type badKey struct {
	Kind string `json:"kind"`
	N    int    `json:"n"`
	Ch   int    `json:"ch"`
	Pos  int    `json:"pos"`
}
type licMut struct {
	Ver int    `json:"ver"`
	How string `json:"how"`
	N   int    `json:"n"`
}

func fill(b []byte, how string, rng *rand.Rand) {
	for i := range b {
		switch how {
		case "zero":
			b[i] = 0
		case "ones":
			b[i] = 0xff
		default:
			b[i] = byte(rng.Intn(256))
		}
	}
}

func urlsafe(s string) bool {
	for _, c := range s {
		if !(c >= 'A' && c <= 'Z' || c >= 'a' && c <= 'z' || c >= '0' && c <= '9' || c == '-' || c == '_') {
			return false
		}
	}
	return true
}

func guard(f func()) (panicked bool) {
	defer func() {
		if recover() != nil {
			panicked = true
		}
	}()
	f()
	return false
}

func newLicense(v int) license.License {
	switch v {
	case 1:
		return license.NewV1()
	case 2:
		return license.NewV2()
	}
	return license.NewV3()
}

// Run is the C20 check.
func Run(c *core.Ctx) {
	c.Level = "exploration"
	rng := rand.New(rand.NewSource(c.Seed))
	var grid struct {
		Keys    []keyClass `json:"keys"`
		BadKeys []badKey   `json:"badkeys"`
		Lic     []licMut   `json:"lic"`
	}
	r, err := tlc.Run(tlc.Opts{SpecDir: core.SpecDir(), Module: "MC_Codec", Cfg: "INIT Init\nNEXT Next\n", Workers: 1, OnTag: func(tag, js string) {
		if tag == "GRID" {
			json.Unmarshal([]byte(js), &grid)
		}
	}})
	if err != nil || !r.OK() || len(grid.Keys) == 0 || len(grid.BadKeys) == 0 || len(grid.Lic) == 0 {
		core.Fatalf("MC_Codec: %v %s", err, r.Brief())
	}
	var events [][]byte
	add := func(m map[string]any) { events = append(events, core.Ev(m)) }
	perClass := 20
	if !c.Quick() {
		perClass = 2000
	}
	for v := 1; v <= 3; v++ {
		lic := newLicense(v)
		ciph, err := lic.Cipher()
		if err != nil {
			core.Fatalf("cipher v%d: %v", v, err)
		}
		seen := map[string]string{}
		distinctKeys := map[string]bool{}
		for _, kc := range grid.Keys {
			for n := 0; n < perClass; n++ {
				k := security.Key(make([]byte, 24))
				fill(k[0:2], kc.Salt, rng)
				fill(k[2:], kc.Body, rng)
				k[15] = byte(kc.Perms)
				var s string
				var e1, e2 error
				var back security.Key
				p := guard(func() {
					s, e1 = ciph.EncryptKey(k)
					if e1 == nil {
						back, e2 = ciph.DecryptKey([]byte(s))
					}
				})
				add(map[string]any{"e": "keyrt", "ver": v, "class": kc, "panic": p, "err": e1 != nil || e2 != nil, "len": len(s), "urlsafe": urlsafe(s), "equal": bytes.Equal(back, k)})
				distinctKeys[string(k)] = true
				seen[s] = string(k)
				if kc.Salt != "count" && kc.Body != "count" {
					break // a constant class has one member
				}
			}
		}
		add(map[string]any{"e": "keyinj", "ver": v, "n": len(distinctKeys), "distinct": len(seen)})
		// the broker has ONE cipher per license, used by every connection's goroutine: the same contract when 8 goroutines
		// encrypt and decrypt distinct keys through it at once (one event per goroutine: all of its round trips)
		{
			rounds := 4000
			if !c.Quick() {
				rounds = 60000
			}
			type res struct {
				panicked, err, urlsafe, equal bool
				length                        int
				strs                          map[string]string
			}
			out := make([]res, 8)
			var wg sync.WaitGroup
			for g := 0; g < 8; g++ {
				wg.Add(1)
				go func(g int) {
					defer wg.Done()
					r := rand.New(rand.NewSource(c.Seed*77 + int64(g)))
					o := res{urlsafe: true, equal: true, length: 32, strs: map[string]string{}}
					for i := 0; i < rounds; i++ {
						k := security.Key(make([]byte, 24))
						r.Read(k)
						k[0], k[1] = byte(g), byte(i) // distinct across goroutines
						k[2], k[3] = byte(i>>8), byte(i>>16)
						var s string
						var e1, e2 error
						var back security.Key
						if guard(func() {
							s, e1 = ciph.EncryptKey(k)
							if e1 == nil {
								back, e2 = ciph.DecryptKey([]byte(s))
							}
						}) {
							o.panicked = true
						}
						if e1 != nil || e2 != nil {
							o.err = true
						}
						if len(s) != 32 {
							o.length = len(s)
						}
						o.urlsafe = o.urlsafe && urlsafe(s)
						o.equal = o.equal && bytes.Equal(back, k)
						o.strs[s] = string(k)
					}
					out[g] = o
				}(g)
			}
			wg.Wait()
			all := map[string]bool{}
			for g, o := range out {
				add(map[string]any{"e": "keyrt", "ver": v, "class": map[string]any{"salt": "concurrent", "body": fmt.Sprintf("goroutine %d of 8 on one cipher", g), "perms": 0},
					"panic": o.panicked, "err": o.err, "len": o.length, "urlsafe": o.urlsafe, "equal": o.equal})
				for s := range o.strs {
					all[s] = true
				}
			}
			add(map[string]any{"e": "keyinj", "ver": v, "n": 8 * rounds, "distinct": len(all)})
			c.Add("concurrent_round_trips", int64(8*rounds))
		}
		// malformed key strings
		good, _ := ciph.EncryptKey(security.Key(make([]byte, 24)))
		for _, bk := range grid.BadKeys {
			s := good
			switch bk.Kind {
			case "len":
				s = strings.Repeat("A", bk.N)
				if bk.N == 31 || bk.N == 33 {
					s = (good + "AAAA")[:bk.N]
				}
			case "char":
				s = good[:bk.Pos] + string([]byte{byte(bk.Ch)}) + good[bk.Pos+1:]
			}
			var e error
			var k security.Key
			p := guard(func() { k, e = ciph.DecryptKey([]byte(s)) })
			add(map[string]any{"e": "keyreject", "ver": v, "class": bk, "panic": p, "err": e != nil && k == nil})
		}
		// license round trip
		var lic2 license.License
		var perr error
		str := lic.String()
		p := guard(func() { lic2, perr = license.Parse(str) })
		ev := map[string]any{"e": "licrt", "ver": v, "panic": p, "err": perr != nil || lic2 == nil, "contract": false, "signature": false, "master": false, "cipher": false}
		if !p && perr == nil && lic2 != nil {
			ev["contract"], ev["signature"], ev["master"] = lic2.Contract() == lic.Contract(), lic2.Signature() == lic.Signature(), lic2.Master() == lic.Master()
			c2, e := lic2.Cipher()
			if e == nil {
				k := security.Key(make([]byte, 24))
				rng.Read(k)
				s, _ := ciph.EncryptKey(k)
				back, e := c2.DecryptKey([]byte(s))
				ev["cipher"] = e == nil && bytes.Equal(back, k)
			}
		}
		add(ev)
	}
	// malformed license strings
	for _, m := range grid.Lic {
		str := newLicense(m.Ver).String()
		body, suffix := str, ""
		if i := strings.LastIndex(str, ":"); i >= 0 {
			body, suffix = str[:i], str[i:]
		}
		var s string
		switch m.How {
		case "truncate":
			s = body[:min(m.N, len(body))] + suffix
		case "flip":
			b := []byte(body)
			if m.N < len(b) {
				b[m.N] ^= 0x15
			}
			s = string(b) + suffix
		case "suffix":
			s = body + fmt.Sprintf(":%d", (m.Ver+m.N)%4)
		case "empty":
			s = suffix
		case "garbage":
			b := make([]byte, m.N+1)
			rng.Read(b)
			s = string(b) + suffix
		}
		p := guard(func() { license.Parse(s) })
		add(map[string]any{"e": "licparse", "mut": m, "input": fmt.Sprintf("%q", s), "panic": p})
	}
	var traces []*core.Trace
	nontrivial := int64(0)
	for i, e := range events {
		traces = append(traces, &core.Trace{Label: fmt.Sprintf("codec-%d", i), Events: [][]byte{e}})
		if !bytes.Contains(e, []byte(`"zero"`)) {
			nontrivial++
		}
	}
	c.Set("evaluations", int64(len(events)))
	c.Sample(map[string]any{"events": []json.RawMessage{events[0], events[len(events)/2], events[len(events)-1]}})
	rej := c.ValidateTraces(traces, core.ValidateOpts{Module: "Codec", Cfg: "INIT TraceInit\nNEXT TraceNext\nCONSTRAINT MarkC\nPOSTCONDITION AllConsumed\nCHECK_DEADLOCK FALSE\n", ChunkSize: 1000000})
	c.ReportRejections(rej, "key cipher / license codec contract broken (round trip, injectivity, rejection of malformed input, total-or-error)")
	c.Set("distinct_nontrivial", nontrivial)
	c.Set("rule", "TLC enumerates boundary classes (salt/body patterns zero / ones / random x 10 permission bytes; key strings of length 0,1,31,33,64 and every one of the 192 invalid byte values at positions 0,1,15,30,31; license strings truncated / flipped / re-suffixed / empty / garbage for the 3 versions); each class is filled with seeded random bytes and run through the real EncryptKey / DecryptKey / Parse / String / Cipher; TLC evaluates the contract on every recorded event; non-trivial = events not of the all-zero class")
	c.Assume = append(c.Assume, "the cipher arithmetic itself is not specified in TLA+ (numeric fidelity is outside this family); TLC evaluates the algebraic contract on recorded values")
	c.Finish()
}
