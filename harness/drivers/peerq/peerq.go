// Package peerq binds spec/PeerQueue.tla and spec/Frames.tla to cluster.Peer, message.Frame, message.ID and the
// message codecs (property C19).
package peerq

import (
	"bytes"
	"encoding/json"
	"fmt"
	"math"
	"math/rand"
	"strings"
	"sync"
	"time"

	"github.com/emitter-io/emitter/internal/message"
	"github.com/emitter-io/emitter/internal/security"
	"github.com/emitter-io/emitter/internal/service/cluster"
	"github.com/emitter-io/emitter/verif/core"
	"github.com/emitter-io/emitter/verif/sched"
	"github.com/emitter-io/emitter/verif/tlc"
	"github.com/weaveworks/mesh"
)

// fakeGossip records unicasts.
type fakeGossip struct {
	mu   sync.Mutex
	sent [][]byte
}

func (f *fakeGossip) GossipUnicast(dst mesh.PeerName, msg []byte) error {
	f.mu.Lock()
	f.sent = append(f.sent, append([]byte{}, msg...))
	f.mu.Unlock()
	return nil
}
func (f *fakeGossip) GossipBroadcast(update mesh.GossipData)       {}
func (f *fakeGossip) GossipNeighbourSubset(update mesh.GossipData) {}

func (f *fakeGossip) wire() [][][]any {
	f.mu.Lock()
	defer f.mu.Unlock()
	out := [][][]any{}
	for _, b := range f.sent {
		fr, err := message.DecodeFrame(b)
		var ms [][]any
		if err != nil {
			ms = append(ms, []any{"?", -1})
		}
		for _, m := range fr {
			var s string
			var i int
			if n, _ := fmt.Sscanf(string(m.Payload[:min(len(m.Payload), 16)]), "%2s:%d", &s, &i); n != 2 {
				s, i = "?", -1
			}
			ms = append(ms, []any{s, i})
		}
		if ms == nil {
			ms = [][]any{}
		}
		out = append(out, ms)
	}
	return out
}

// refusingGossip is a transport that refuses some unicasts; the first call can be held until the test lets it go.
type refusingGossip struct {
	mu      sync.Mutex
	calls   int
	refuse  map[int]bool // call numbers (1-based) answered with an error
	hold    chan struct{}
	holding chan struct{}
	passed  []int
}

func (f *refusingGossip) GossipUnicast(dst mesh.PeerName, msg []byte) error {
	f.mu.Lock()
	f.calls++
	n := f.calls
	if fr, err := message.DecodeFrame(msg); err == nil {
		for _, m := range fr {
			var i int
			fmt.Sscanf(string(m.Payload[:min(len(m.Payload), 16)]), "m:%d", &i)
			f.passed = append(f.passed, i)
		}
	} else {
		f.passed = append(f.passed, -1)
	}
	f.mu.Unlock()
	if n == 1 && f.hold != nil {
		close(f.holding)
		<-f.hold
	}
	if f.refuse[n] {
		return fmt.Errorf("peer unreachable")
	}
	return nil
}
func (f *refusingGossip) GossipBroadcast(update mesh.GossipData)       {}
func (f *refusingGossip) GossipNeighbourSubset(update mesh.GossipData) {}

// forwardWithRefusals: messages of `size` bytes are handed to a real peer, the flush runs, the transport refuses the
// unicasts listed, and (interleave) one more message is handed over while the first unicast is in progress.
func forwardWithRefusals(queued, size int, refuse []int, interleave bool) map[string]any {
	g := &refusingGossip{refuse: map[int]bool{}}
	for _, r := range refuse {
		g.refuse[r] = true
	}
	if interleave {
		g.hold, g.holding = make(chan struct{}), make(chan struct{})
	}
	p := cluster.VerifNewPeer(g, mesh.PeerName(77))
	n := 0
	for i := 0; i < queued; i++ {
		n++
		m := mkMessage(size, fmt.Sprintf("m:%d ", n))
		p.Send(&m)
	}
	done := make(chan struct{})
	go func() { p.VerifFlush(); close(done) }()
	if interleave {
		<-g.holding
		n++
		m := mkMessage(size, fmt.Sprintf("m:%d ", n))
		p.Send(&m)
		close(g.hold)
	}
	<-done
	for i := 0; i < 3; i++ {
		p.VerifFlush() // later ticks
	}
	g.mu.Lock()
	defer g.mu.Unlock()
	return map[string]any{"e": "forward", "n": n, "passed": append([]int{}, g.passed...), "refused_calls": refuse, "interleaved": interleave, "size": size}
}

var gatePC = map[string]string{"peer.flush.nonempty": "nonempty", "peer.flush.swapped": "swapped", "peer.flush.sent": "sent"}

type pstep struct {
	T string `json:"t"`
}

func replay(walk []json.RawMessage, senders, flushers []string, nmsgs, nrounds int, label string) (*core.Trace, error) {
	g := &fakeGossip{}
	peer := cluster.VerifNewPeer(g, mesh.PeerName(77))
	s := sched.New(peer)
	defer s.Close()
	isSender := map[string]bool{}
	for _, n := range senders {
		isSender[n] = true
		s.Spawn(n)
	}
	for _, n := range flushers {
		s.Spawn(n)
	}
	done := map[string]int{}
	tr := &core.Trace{Label: label}
	tr.Events = append(tr.Events, core.Ev(map[string]any{"e": "reset"}))
	for _, raw := range walk {
		var st pstep
		json.Unmarshal(raw, &st)
		th := s.Threads[st.T]
		if th == nil {
			return nil, fmt.Errorf("unknown thread %q", st.T)
		}
		quota := nrounds
		if isSender[st.T] {
			quota = nmsgs
		}
		var ev sched.Event
		var ok bool
		if !th.Parked() {
			if done[st.T] >= quota {
				tr.Events = append(tr.Events, core.Ev(map[string]any{"e": "diverged", "why": "thread " + st.T + " has already finished its calls"}))
				return tr, nil
			}
			if isSender[st.T] {
				m := message.New(message.Ssid{1, 2}, []byte("a/"), []byte(fmt.Sprintf("%s:%d", st.T, done[st.T]+1)))
				ev, ok = th.Start(func() { peer.Send(m) }, 3*time.Second)
			} else {
				ev, ok = th.Start(func() { peer.VerifFlush() }, 3*time.Second)
			}
		} else {
			ev, ok = th.Resume(3 * time.Second)
		}
		at := "blocked"
		if ok {
			if ev.Gate == "" {
				done[st.T]++
				at = "idle"
				if done[st.T] >= quota {
					at = "end"
				}
			} else if pc, k := gatePC[ev.Gate]; k {
				at = pc
			} else {
				at = ev.Gate
			}
		}
		tr.Events = append(tr.Events, core.Ev(map[string]any{"e": "step", "t": st.T, "at": at, "wire": g.wire()}))
		if !ok {
			break
		}
	}
	return tr, nil
}

func set(xs []string) string {
	q := make([]string, len(xs))
	for i, x := range xs {
		q[i] = fmt.Sprintf("%q", x)
	}
	return "{" + strings.Join(q, ",") + "}"
}

func mkMessage(size int, tag string) message.Message {
	ssid := message.Ssid{1, 2}
	id := message.NewID(ssid) // 24 bytes
	ch := []byte("a/")
	pl := size - len(id) - len(ch) - 20
	p := bytes.Repeat([]byte{'x'}, pl)
	copy(p, tag)
	return message.Message{ID: id, Channel: ch, Payload: p}
}

func sameMessages(a, b message.Frame) bool {
	if len(a) != len(b) {
		return false
	}
	for i := range a {
		if !bytes.Equal(a[i].ID, b[i].ID) || !bytes.Equal(a[i].Payload, b[i].Payload) || !bytes.Equal(a[i].Channel, b[i].Channel) {
			return false
		}
	}
	return true
}

// Run is the C19 check.
func Run(c *core.Ctx) {
	c.Level = "model_checking"
	rng := rand.New(rand.NewSource(c.Seed))
	// ---- (a) peer queue: every edge of the state graph forced on the real cluster.Peer
	senders, flushers := []string{"s1", "s2"}, []string{"f"}
	nmsgs, nrounds := 2, 3
	if !c.Quick() {
		nmsgs, nrounds = 3, 3
	}
	cfg := func(gen string) string {
		return fmt.Sprintf("CONSTANTS\n Senders = %s\n Flushers = %s\n NMsgs = %d\n NRounds = %d\n ChunkMax = 100\n Gen = %q\nINIT MCInit\nNEXT MCNext\nVIEW View\nINVARIANTS InOrderOnce NoDuplicates ChunkBound Dump\n",
			set(senders), set(flushers), nmsgs, nrounds, gen)
	}
	c.ModelCheck("MC_PeerQueue", fmt.Sprintf("CONSTANTS\n Senders = {\"s1\",\"s2\"}\n Flushers = {\"f\"}\n NMsgs = 3\n NRounds = 3\n ChunkMax = 2\n Gen = \"none\"\nINIT MCInit\nNEXT MCNext\nVIEW View\nINVARIANTS InOrderOnce NoDuplicates ChunkBound Dump\n"), tlc.Opts{})
	g := core.NewGraph()
	c.ModelCheck("MC_PeerQueue", cfg("edges"), tlc.Opts{OnTag: func(tag, js string) {
		if tag == "EDGE" {
			if err := g.AddJSON(js); err != nil {
				core.Fatalf("EDGE: %v", err)
			}
		}
	}})
	init := `{"pc":{"s1":"idle","s2":"idle","f":"idle"},"cnt":{"s1":0,"s2":0,"f":0},"frame":[],"taken":{"f":[]},"wire":[]}`
	walks, covered, unreach := g.Walks(init, 60, rng, 1)
	if unreach > 0 || covered == 0 {
		core.Fatalf("peer-queue graph: %d edges unreachable, %d covered", unreach, covered)
	}
	c.Add("edges_exported", int64(g.Edges))
	c.Add("edges_replayed", int64(covered))
	var traces []*core.Trace
	var nontrivial int64
	for i, w := range walks {
		t, err := replay(w, senders, flushers, nmsgs, nrounds, fmt.Sprintf("peerq-%d", i))
		if err != nil {
			core.Fatalf("replay: %v", err)
		}
		traces = append(traces, t)
		c.Add("evaluations", int64(len(t.Events)-1))
		nontrivial++
	}
	if len(traces) > 0 {
		t := traces[rng.Intn(len(traces))]
		var head []json.RawMessage
		for i, e := range t.Events {
			if i < 9 {
				head = append(head, e)
			}
		}
		c.Sample(map[string]any{"part": "peer queue schedule", "label": t.Label, "events_head": head})
	}
	rej := c.ValidateTraces(traces, core.ValidateOpts{Module: "PeerQueue_Trace", Cfg: fmt.Sprintf("CONSTANTS\n Senders = %s\n Flushers = %s\n NMsgs = %d\n NRounds = %d\n ChunkMax = 100\nINIT TraceInit\nNEXT TraceNext\nCONSTRAINT MarkC\nINVARIANT TraceInv\nPOSTCONDITION AllConsumed\nCHECK_DEADLOCK FALSE\n", set(senders), set(flushers), nmsgs, nrounds), ChunkSize: 3000})
	for _, r := range rej {
		if r.Index < len(r.Trace.Events) && strings.Contains(string(r.Trace.Events[r.Index]), `"e":"diverged"`) {
			core.Fatalf("replay bookkeeping diverged although every recorded step conforms to the model")
		}
	}
	c.ReportRejections(rej, "messages handed to an active peer did not reach the transport exactly once and in order")

	// ---- (b)-(d) functional contracts, evaluated by TLC on recorded events
	fn := &core.Trace{Label: "frames-ids-codecs"}
	var frames []struct {
		Sizes []int `json:"sizes"`
		Bound int   `json:"bound"`
	}
	var expected int
	r, err := tlc.Run(tlc.Opts{SpecDir: core.SpecDir(), Module: "MC_Frames", Cfg: fmt.Sprintf("CONSTANT Tier = %q\nINIT Init\nNEXT Next\n", c.Tier), Workers: 1,
		OnTag: func(tag, js string) {
			switch tag {
			case "FRAME":
				var f struct {
					Sizes []int `json:"sizes"`
					Bound int   `json:"bound"`
				}
				json.Unmarshal([]byte(js), &f)
				frames = append(frames, f)
			case "COUNT":
				var x struct{ N int }
				json.Unmarshal([]byte(js), &x)
				expected = x.N
			}
		}})
	if err != nil || !r.OK() || len(frames) != expected || expected == 0 {
		core.Fatalf("MC_Frames: %v %s (%d/%d frames)", err, r.Brief(), len(frames), expected)
	}
	for _, f := range frames {
		var fr message.Frame
		for i, s := range f.Sizes {
			fr = append(fr, mkMessage(s, fmt.Sprintf("m%d", i)))
		}
		head, tail := fr.Split(f.Bound)
		same := sameMessages(append(append(message.Frame{}, head...), tail...), fr)
		sizes := f.Sizes
		if sizes == nil {
			sizes = []int{}
		}
		fn.Events = append(fn.Events, core.Ev(map[string]any{"e": "split", "sizes": sizes, "bound": f.Bound, "head": len(head), "tail": len(tail), "same": same}))
	}
	c.Add("split_cases", int64(len(frames)))
	// the real drain loop (Peer.processSendQueue, 10 MiB bound) with real large messages
	mb := 1 << 20
	drains := [][]int{{4 * mb, 4 * mb, 4 * mb}, {1000, 11 * mb}, {11 * mb, 1000, 2000}, {1000, 11 * mb, 3000}, {5 * mb, 5*mb - 200, 100}, {cluster.VerifMaxFrameBytes, 500}}
	if c.Quick() {
		drains = drains[:4]
	}
	for _, sizes := range drains {
		gsp := &fakeGossip{}
		peer := cluster.VerifNewPeer(gsp, mesh.PeerName(78))
		var fr message.Frame
		for i, s := range sizes {
			m := mkMessage(s, fmt.Sprintf("d%d", i))
			fr = append(fr, m)
			peer.Send(&m)
		}
		peer.VerifFlush()
		var chunks []int
		var got message.Frame
		for _, b := range gsp.sent {
			d, err := message.DecodeFrame(b)
			if err != nil {
				core.Fatalf("DecodeFrame of a sent chunk: %v", err)
			}
			chunks = append(chunks, len(d))
			got = append(got, d...)
		}
		if chunks == nil {
			chunks = []int{}
		}
		fn.Events = append(fn.Events, core.Ev(map[string]any{"e": "drain", "sizes": sizes, "bound": cluster.VerifMaxFrameBytes, "chunks": chunks, "same": sameMessages(got, fr)}))
	}
	// ids
	type made struct {
		id   message.ID
		ssid message.Ssid
		n    int
	}
	var ids []made
	ssids := []message.Ssid{{1, 2}, {1, 2, 3}, {0xFFFFFFFF, 0, 7, 0xFFFFFFFF}, {5, 6}}
	times := []int64{security.MinTime, security.MinTime + 1, time.Now().Unix(), security.MaxTime - 1, security.MaxTime, int64(security.MinTime) + math.MaxUint32/2}
	for _, s := range ssids {
		for _, t := range times {
			id := message.NewID(s)
			id.SetTime(t)
			dec := []uint32(id.Ssid())
			fn.Events = append(fn.Events, core.Ev(map[string]any{"e": "id", "ssid": []uint32(s), "t": t, "decSsid": dec, "decT": id.Time()}))
		}
	}
	// later ids for one channel sort before earlier ones; concurrent creation: all distinct
	var mu sync.Mutex
	var wg sync.WaitGroup
	for gi := 0; gi < 4; gi++ {
		wg.Add(1)
		go func() {
			defer wg.Done()
			for i := 0; i < 300; i++ {
				mu.Lock() // creation order across goroutines is defined by this lock
				id := message.NewID(ssids[0])
				ids = append(ids, made{id: id, n: len(ids)})
				mu.Unlock()
			}
		}()
	}
	wg.Wait()
	distinct := map[string]bool{}
	for _, m := range ids {
		distinct[string(m.id)] = true
	}
	fn.Events = append(fn.Events, core.Ev(map[string]any{"e": "idunique", "n": len(ids), "distinct": len(distinct)}))
	for k := 0; k < 400; k++ {
		i, j := rng.Intn(len(ids)), rng.Intn(len(ids))
		if i == j {
			continue
		}
		fn.Events = append(fn.Events, core.Ev(map[string]any{"e": "idorder", "a": i, "b": j, "later": i > j, "cmp": bytes.Compare(ids[i].id, ids[j].id)}))
	}
	// explicit times: a later second sorts before an earlier one
	for k := 0; k < 50; k++ {
		a, b := message.NewID(ssids[1]), message.NewID(ssids[1])
		ta, tb := security.MinTime+int64(rng.Intn(1000000)), security.MinTime+int64(rng.Intn(1000000))
		a.SetTime(ta)
		b.SetTime(tb)
		if ta != tb {
			fn.Events = append(fn.Events, core.Ev(map[string]any{"e": "idorder", "a": ta, "b": tb, "later": ta > tb, "cmp": bytes.Compare(a, b)}))
		}
	}
	// codecs: messages and frames over boundary classes
	classes := []message.Message{
		{},
		{ID: message.NewID(ssids[0]), Channel: []byte("a/"), Payload: []byte("x"), TTL: 0},
		{ID: message.NewID(ssids[2]), Channel: []byte(strings.Repeat("c/", 200)), Payload: bytes.Repeat([]byte{0}, 65536), TTL: math.MaxUint32},
		{ID: message.NewID(ssids[1]), Channel: []byte("a/b/"), Payload: nil, TTL: 1},
		{ID: nil, Channel: []byte("only-channel/"), Payload: []byte{0xff, 0x00, 0xff}, TTL: 3600},
		{ID: message.NewID(ssids[3]), Channel: nil, Payload: bytes.Repeat([]byte("ab"), 5000), TTL: 86400},
	}
	eq := func(a, b message.Message) bool {
		return bytes.Equal(a.ID, b.ID) && bytes.Equal(a.Channel, b.Channel) && bytes.Equal(a.Payload, b.Payload) && a.TTL == b.TTL
	}
	for i, m := range classes {
		mm := m
		d, err := message.DecodeMessage(mm.Encode())
		fn.Events = append(fn.Events, core.Ev(map[string]any{"e": "codec", "kind": "message", "class": i, "err": err != nil, "equal": err == nil && eq(d, m)}))
	}
	for n := 0; n <= len(classes); n++ {
		fr := message.Frame(append([]message.Message{}, classes[:n]...))
		d, err := message.DecodeFrame(fr.Encode())
		ok := err == nil && len(d) == len(fr)
		for i := 0; ok && i < len(fr); i++ {
			ok = eq(d[i], fr[i])
		}
		fn.Events = append(fn.Events, core.Ev(map[string]any{"e": "codec", "kind": "frame", "class": n, "err": err != nil, "equal": ok}))
	}
	// a transport that refuses unicasts (frames of one and of several chunks; a hand-over during the flush)
	for _, sc := range []struct {
		queued, size int
		refuse       []int
		inter        bool
	}{{3, 1000, []int{1}, false}, {3, 1000, []int{1}, true}, {3, 6 << 20, []int{1}, true}, {3, 6 << 20, []int{2}, true}, {4, 4 << 20, []int{1, 2}, false}, {2, 6 << 20, []int{2}, true}} {
		fn.Events = append(fn.Events, core.Ev(forwardWithRefusals(sc.queued, sc.size, sc.refuse, sc.inter)))
	}
	// the codecs under concurrent use (flushers of several peers, storage and forwarding encode at the same time and
	// share the encoder pool): 12 goroutines encode and decode frames / messages of their own; one event per goroutine
	{
		rounds := 150
		if !c.Quick() {
			rounds = 2500
		}
		okAll := make([]bool, 12)
		var wg sync.WaitGroup
		for g := 0; g < 12; g++ {
			wg.Add(1)
			go func(g int) {
				defer wg.Done()
				r := rand.New(rand.NewSource(c.Seed*13 + int64(g)))
				ok := true
				for i := 0; i < rounds && ok; i++ {
					var fr message.Frame
					for j := 0; j < 1+r.Intn(6); j++ {
						fr = append(fr, message.Message{ID: message.NewID(ssids[(g+j)%len(ssids)]), Channel: []byte(fmt.Sprintf("g%d/m%d/", g, j)),
							Payload: bytes.Repeat([]byte{byte(1 + g*7 + j)}, []int{0, 10, 3000, 120000}[r.Intn(4)]), TTL: uint32(g*1000 + i)})
					}
					d, err := message.DecodeFrame(fr.Encode())
					ok = err == nil && len(d) == len(fr)
					for x := 0; ok && x < len(fr); x++ {
						ok = eq(d[x], fr[x])
					}
					if ok {
						one := fr[0]
						dm, err := message.DecodeMessage(one.Encode())
						ok = err == nil && eq(dm, fr[0])
					}
				}
				okAll[g] = ok
			}(g)
		}
		wg.Wait()
		for g, ok := range okAll {
			fn.Events = append(fn.Events, core.Ev(map[string]any{"e": "codec", "kind": "concurrent", "class": g, "err": false, "equal": ok}))
		}
		c.Add("concurrent_codec_round_trips", int64(12*rounds))
	}
	c.Add("evaluations", int64(len(fn.Events)))
	c.Sample(map[string]any{"part": "functional contracts", "events_head": []json.RawMessage{fn.Events[0], fn.Events[len(frames)/2], fn.Events[len(fn.Events)-1]}})
	// each functional event is validated on its own so that a listed finding does not hide the others
	var single []*core.Trace
	for i, e := range fn.Events {
		single = append(single, &core.Trace{Label: fmt.Sprintf("fn-%d", i), Events: [][]byte{e}})
	}
	rej = c.ValidateTraces(single, core.ValidateOpts{Module: "Frames", Cfg: "INIT TraceInit\nNEXT TraceNext\nCONSTRAINT MarkC\nPOSTCONDITION AllConsumed\nCHECK_DEADLOCK FALSE\n", ChunkSize: 100000})
	var real []core.Rejection
	for _, rj := range rej {
		var ev struct {
			E      string `json:"e"`
			Sizes  []int  `json:"sizes"`
			Bound  int    `json:"bound"`
			Chunks []int  `json:"chunks"`
		}
		json.Unmarshal(rj.Trace.Events[0], &ev)
		oversize := false
		for _, s := range ev.Sizes {
			if s >= ev.Bound {
				oversize = true
			}
		}
		if ev.E == "drain" && oversize && c.Known("oversize_drops_rest") {
			continue
		}
		real = append(real, rj)
	}
	c.ReportRejections(real, "message id / frame / codec contract broken")
	c.Set("distinct_nontrivial", nontrivial+int64(len(frames)))
	c.Set("exhaustive", true)
	c.Set("rule", "(a) every edge of the exported PeerQueue state graph (2 senders x 2-3 messages, flusher x 3 rounds, steps at the gates in processSendQueue) forced onto a real cluster.Peer with a recording gossip sender; (b) every frame of <= 3 (4) messages with sizes around the bound through the real Frame.Split, and the real processSendQueue loop with 4-11 MiB messages; (c) ids for 4 ssids x 6 times incl. MinTime/MaxTime, 1200 ids created by 4 goroutines (uniqueness, later-sorts-first on 450 pairs); (d) message and frame codecs on boundary classes (empty, 64 KiB payload, ttl 0 / 2^32-1, nil fields); every walk and every distinct frame counts as non-trivial")
	c.Assume = append(c.Assume, "the peer is active (seen within 30 s)", "the 10 MiB split bound is exercised with real large messages only in part (b); the schedule exploration uses small messages (one chunk per flush)")
	c.Finish()
}
