// Package durable binds spec/Durable.tla to the real disk-backed store: a child process stores messages and is
// killed (SIGKILL) or stopped; a fresh process reopens the directory and reports what it finds (property C15).
package durable

import (
	"bufio"
	"crypto/sha1"
	"encoding/hex"
	"encoding/json"
	"fmt"
	"math/rand"
	"os"
	"os/exec"
	"strings"
	"sync"
	"syscall"
	"time"

	"github.com/emitter-io/emitter/internal/message"
	"github.com/emitter-io/emitter/internal/provider/storage"
	"github.com/emitter-io/emitter/verif/core"
	"github.com/emitter-io/emitter/verif/tlc"
)

// every message gets its own channel, so that reading one back is a single-message query (a reply is capped at 64 KiB)
func chanOf(i int) string { return fmt.Sprintf("m%d/", i) }

func ssidOf(i int) message.Ssid {
	return message.Ssid{7, uint32(1000 + i), uint32(i % 3)}
}

// every storing process first stores one small message on the SAME channel (all other messages have a channel of
// their own because of the reply-size cap): ids of one channel created by successive processes - within one second,
// at the same position of each process' id counter - must still be distinct, or a restart overwrites history
var sharedSsid = message.Ssid{7, 999, 1}

const sharedBase = 100000

func hashOf(b []byte) string {
	h := sha1.Sum(b)
	return hex.EncodeToString(h[:6])
}

// Child is the entry point of the helper process:  _storechild store <dir> <seed> <from> <count> | query <dir> <upto>
func Child(args []string) {
	devnull, _ := os.OpenFile(os.DevNull, os.O_WRONLY, 0)
	os.Stderr = devnull
	out := bufio.NewWriter(os.Stdout)
	s := storage.NewSSD(nil)
	if err := s.Configure(map[string]interface{}{"dir": args[1]}); err != nil {
		fmt.Fprintf(out, "openfail %v\n", err)
		out.Flush()
		os.Exit(3)
	}
	switch args[0] {
	case "store":
		var seed int64
		var from, count int
		fmt.Sscan(args[2], &seed)
		fmt.Sscan(args[3], &from)
		fmt.Sscan(args[4], &count)
		rng := rand.New(rand.NewSource(seed))
		fmt.Fprintln(out, "ready")
		out.Flush()
		stop := make(chan struct{})
		go func() { // "stop" on stdin = clean shutdown
			r := bufio.NewReader(os.Stdin)
			r.ReadString('\n')
			close(stop)
		}()
		{
			payload := []byte(fmt.Sprintf("first message of the process that starts at %d", from))
			m := message.New(sharedSsid, []byte("shared/"), payload)
			m.TTL = 100000
			fmt.Fprintf(out, "begin %d %s %s %s %d\n", sharedBase+from, hex.EncodeToString(m.ID), "shared/", hashOf(payload), m.TTL)
			out.Flush()
			if err := s.Store(m); err != nil {
				fmt.Fprintf(out, "storefail %d %v\n", sharedBase+from, err)
			} else {
				fmt.Fprintf(out, "ack %d\n", sharedBase+from)
			}
			out.Flush()
		}
		if len(args) > 5 && args[5] == "load" {
			// clean stop under load: Close runs while another goroutine is still storing; a Store that returns nil
			// counts as acknowledged whenever it returns
			var mu sync.Mutex
			say := func(format string, a ...any) {
				mu.Lock()
				fmt.Fprintf(out, format, a...)
				out.Flush()
				mu.Unlock()
			}
			finished := make(chan struct{})
			go func() {
				defer close(finished)
				for i := from; i < from+count; i++ {
					ch := chanOf(i)
					payload := make([]byte, []int{10, 200, 5000}[rng.Intn(3)])
					rng.Read(payload)
					m := message.New(ssidOf(i), []byte(ch), payload)
					m.TTL = uint32(100000 + rng.Intn(1000))
					say("begin %d %s %s %s %d\n", i, hex.EncodeToString(m.ID), ch, hashOf(payload), m.TTL)
					if err := s.Store(m); err != nil {
						say("storefail %d %v\n", i, err)
						select {
						case <-stop:
							return // the store is closing: give up
						default:
						}
						continue
					}
					say("ack %d\n", i)
				}
			}()
			<-stop
			s.Close()
			select {
			case <-finished:
			case <-time.After(10 * time.Second): // a Store stuck inside the closing database never returned: not acknowledged
			}
			say("closed\n")
			return
		}
		for i := from; i < from+count; i++ {
			select {
			case <-stop:
				s.Close()
				fmt.Fprintln(out, "closed")
				out.Flush()
				return
			default:
			}
			ch := chanOf(i)
			size := []int{10, 200, 5000, 60000}[rng.Intn(4)]
			if i%5 == 2 {
				// the largest messages a broker accepts: id + channel + payload at and just below 65536 bytes
				probe := message.New(ssidOf(i), []byte(ch), nil)
				size = 65536 - len(probe.ID) - len(ch) - []int{0, 1, 4, 8, 16}[(i/5)%5]
			}
			payload := make([]byte, size)
			rng.Read(payload)
			m := message.New(ssidOf(i), []byte(ch), payload)
			m.TTL = uint32(100000 + rng.Intn(1000))
			if i%4 == 3 {
				// a message that is 45 days old (replicated late, or stored by an earlier life of the broker) with a
				// TTL of 120 days: live for another 75 days, whatever the retention period of retained messages is
				m.ID.SetTime(time.Now().Unix() - 45*86400)
				m.TTL = 120 * 86400
			}
			fmt.Fprintf(out, "begin %d %s %s %s %d\n", i, hex.EncodeToString(m.ID), ch, hashOf(payload), m.TTL)
			out.Flush()
			if err := s.Store(m); err != nil {
				fmt.Fprintf(out, "storefail %d %v\n", i, err)
				out.Flush()
				continue
			}
			fmt.Fprintf(out, "ack %d\n", i)
			out.Flush()
		}
		<-stop
		s.Close()
		fmt.Fprintln(out, "closed")
		out.Flush()
	case "query":
		var upto int
		fmt.Sscan(args[2], &upto)
		for i := 0; i <= upto; i++ {
			q := ssidOf(i)
			if i == 0 {
				q = sharedSsid
			}
			fr, err := s.Query(q, time.Unix(0, 0), time.Unix(0, 0), nil, 100)
			if err != nil {
				fmt.Fprintf(out, "queryfail %v\n", err)
				continue
			}
			for _, m := range fr {
				fmt.Fprintf(out, "msg %s %s %s %d\n", hex.EncodeToString(m.ID), string(m.Channel), hashOf(m.Payload), m.TTL)
			}
		}
		s.Close()
		fmt.Fprintln(out, "reopened")
		out.Flush()
	}
}

type rec struct {
	n                int
	id, ch, hash, tl string
}

// cycle runs one store-and-end cycle followed by a reopen in a fresh process; events are appended to the trace.
func cycle(tr *core.Trace, dir string, seed int64, from, count int, how string, rng *rand.Rand, known map[string]rec) error {
	self, _ := os.Executable()
	argv := []string{"_storechild", "store", dir, fmt.Sprint(seed), fmt.Sprint(from), fmt.Sprint(count)}
	stopAfterAcks := count
	if how == "stop-load" {
		argv = append(argv, "load")
		stopAfterAcks = 1 + rng.Intn(count/2+1)
	}
	cmd := exec.Command(self, argv...)
	stdin, _ := cmd.StdinPipe()
	stdout, _ := cmd.StdoutPipe()
	if err := cmd.Start(); err != nil {
		return err
	}
	rd := bufio.NewReader(stdout)
	killAfterAcks := -1
	killDelay := time.Duration(0)
	switch how {
	case "kill-after-ack":
		killAfterAcks = 1 + rng.Intn(count)
	case "kill-timed":
		killDelay = time.Duration(200+rng.Intn(30000)) * time.Microsecond
	case "kill-in-store":
		killAfterAcks = rng.Intn(count) // then kill right after the next "begin"
	}
	done := make(chan struct{})
	if killDelay > 0 {
		go func() {
			select {
			case <-time.After(killDelay + 30*time.Millisecond): // after "ready" (badger open takes tens of ms)
				cmd.Process.Signal(syscall.SIGKILL)
			case <-done:
			}
		}()
	}
	acks := 0
	ended := false
	for !ended {
		line, err := rd.ReadString('\n')
		if err != nil {
			break
		}
		f := strings.Fields(strings.TrimSpace(line))
		if len(f) == 0 {
			continue
		}
		switch f[0] {
		case "openfail":
			cmd.Wait()
			tr.Events = append(tr.Events, core.Ev(map[string]any{"e": "reopen", "ok": false, "found": []int{}, "unknown": 0, "changed": 0, "why": line}))
			return nil
		case "begin":
			var n int
			fmt.Sscan(f[1], &n)
			known[f[2]] = rec{n, f[2], f[3], f[4], f[5]}
			tr.Events = append(tr.Events, core.Ev(map[string]any{"e": "begin", "m": n}))
			if how == "kill-in-store" && acks == killAfterAcks {
				time.Sleep(time.Duration(rng.Intn(300)) * time.Microsecond)
				cmd.Process.Signal(syscall.SIGKILL)
			}
		case "ack":
			var n int
			fmt.Sscan(f[1], &n)
			acks++
			tr.Events = append(tr.Events, core.Ev(map[string]any{"e": "ack", "m": n}))
			if how == "kill-after-ack" && acks == killAfterAcks {
				cmd.Process.Signal(syscall.SIGKILL)
			}
			if (how == "stop" || how == "stop-load") && acks == stopAfterAcks {
				fmt.Fprintln(stdin, "stop")
			}
		case "closed":
			ended = true
		case "storefail":
			// the store refused the message: it is neither acknowledged nor required to be there
		}
	}
	close(done)
	cmd.Wait()
	if how == "stop" || how == "stop-load" {
		tr.Events = append(tr.Events, core.Ev(map[string]any{"e": "stop", "how": how}))
	} else {
		tr.Events = append(tr.Events, core.Ev(map[string]any{"e": "crash", "how": how}))
	}
	// fresh process: reopen and read everything back
	q := exec.Command(self, "_storechild", "query", dir, fmt.Sprint(from+count+5))
	qout, err := q.Output()
	found, unknown, changed, ok := []int{}, 0, 0, false
	for _, line := range strings.Split(string(qout), "\n") {
		f := strings.Fields(line)
		if len(f) == 0 {
			continue
		}
		switch f[0] {
		case "msg":
			r, is := known[f[1]]
			if !is {
				unknown++
				continue
			}
			if r.ch != f[2] || r.hash != f[3] || r.tl != f[4] {
				changed++
			}
			found = append(found, r.n)
		case "reopened":
			ok = true
		}
	}
	_ = err
	tr.Events = append(tr.Events, core.Ev(map[string]any{"e": "reopen", "ok": ok, "found": found, "unknown": unknown, "changed": changed}))
	return nil
}

// Run is the C15 check.
func Run(c *core.Ctx) {
	c.Level = "fault_enumeration"
	rng := rand.New(rand.NewSource(c.Seed))
	c.ModelCheck("Durable", "CONSTANTS\n Msgs = {1,2,3}\nINIT DurInit\nNEXT DurNext\nINVARIANTS AckedSurvive NoPhantoms SeenIsHonest\n", tlc.Opts{Deadlock: false})
	chains, cycles, per := 20, 3, 12
	if !c.Quick() {
		chains, cycles, per = 60, 4, 25
	}
	hows := []string{"kill-after-ack", "kill-in-store", "stop-load", "kill-timed", "stop", "kill-in-store", "kill-after-ack", "stop-load"}
	var traces []*core.Trace
	var nontrivial, kills int64
	for ch := 0; ch < chains; ch++ {
		dir, err := os.MkdirTemp("", "vdur-")
		if err != nil {
			core.Fatalf("tempdir: %v", err)
		}
		tr := &core.Trace{Label: fmt.Sprintf("chain-%d", ch)}
		tr.Events = append(tr.Events, core.Ev(map[string]any{"e": "reset"}))
		known := map[string]rec{}
		for cy := 0; cy < cycles; cy++ {
			how := hows[(ch+cy+int(c.Seed))%len(hows)]
			if err := cycle(tr, dir, c.Seed*1000+int64(ch*10+cy), 1+cy*per, per, how, rng, known); err != nil {
				os.RemoveAll(dir)
				core.Fatalf("child process: %v", err)
			}
			if how != "stop" && how != "stop-load" {
				kills++
			}
		}
		os.RemoveAll(dir)
		traces = append(traces, tr)
		c.Add("evaluations", int64(len(tr.Events)))
		nontrivial++
	}
	c.Add("kills", kills)
	if len(traces) > 0 {
		t := traces[0]
		var head []json.RawMessage
		for i, e := range t.Events {
			if i < 6 || strings.Contains(string(e), "reopen") || strings.Contains(string(e), "crash") {
				head = append(head, e)
			}
		}
		c.Sample(map[string]any{"label": t.Label, "events": head})
	}
	msgs := "{"
	for i := 1; i <= cycles*per; i++ {
		if i > 1 {
			msgs += ","
		}
		msgs += fmt.Sprint(i)
	}
	msgs += "}"
	rej := c.ValidateTraces(traces, core.ValidateOpts{Module: "Durable_Trace", Cfg: "CONSTANTS\n Msgs = " + msgs + "\nINIT TraceInit\nNEXT TraceNext\nCONSTRAINT MarkC\nINVARIANT TraceInv\nPOSTCONDITION AllConsumed\nCHECK_DEADLOCK FALSE\n", ChunkSize: 100000})
	c.ReportRejections(rej, "after a kill / stop and a restart on the same directory the store lost an acknowledged message, showed one that was never stored or changed one, or did not reopen")
	c.Set("distinct_nontrivial", nontrivial)
	c.Set("rule", "each chain = 3-4 cycles on one directory; a cycle = a child process storing 12-25 random messages (one channel per message, payloads 10 B..60 KB) into the real storage.SSD, announcing begin/ack on a pipe, ended by SIGKILL right after a seeded acknowledgement, SIGKILL a few hundred microseconds after a seeded begin (inside the Store call), SIGKILL at a seeded instant, a clean Close, or a clean Close issued while another goroutine is still storing (every Store that returns nil counts as acknowledged); then a fresh process reopens the directory and lists every message; chains are distinct by seed; every chain has at least two kills")
	c.Assume = append(c.Assume, "a process kill, not a power loss (badger runs with SyncWrites=false; the page cache survives)", "crash instants are sampled, not enumerated")
	c.Finish()
}
