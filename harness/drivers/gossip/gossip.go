// Package gossip binds spec/Gossip.tla to real brokers whose swarms talk through the transcribed mesh sender
// (properties C05 and the queueing half of C13).
package gossip

import (
	"encoding/json"
	"fmt"
	"math/rand"
	"sort"
	"strings"
	"sync"
	"sync/atomic"
	"time"

	"github.com/emitter-io/emitter/internal/event"
	rc "github.com/emitter-io/emitter/internal/event/crdt"
	"github.com/emitter-io/emitter/internal/message"
	"github.com/emitter-io/emitter/internal/network/mqtt"
	"github.com/emitter-io/emitter/internal/security/hash"
	"github.com/emitter-io/emitter/verif/bk"
	"github.com/emitter-io/emitter/verif/core"
	"github.com/emitter-io/emitter/verif/drivers/session"
	vcrdt "github.com/emitter-io/emitter/verif/drivers/crdt"
	"github.com/emitter-io/emitter/verif/meshsender"
	"github.com/emitter-io/emitter/verif/tlc"
	"github.com/weaveworks/mesh"
)

// the replicated clock is a package variable of the repository: schedules that drive it run one at a time
var clockMu sync.Mutex

type action struct {
	N  string `json:"n"`
	B  string `json:"b"`
	S  string `json:"s"`
	To string `json:"to"`
}

type node struct {
	name   string
	b      *bk.Broker
	cl     *bk.Client
	nd     *meshsender.Node
	peer   mesh.PeerName
	connID uint64
	key    string
	mid    uint16
}

type cluster struct {
	nodes  map[string]*node
	names  []string
	net    *meshsender.Net
	ssids  []string
	byPeer map[uint64]string
	byConn map[uint64]string // connection id (of any incarnation of a broker's client) -> broker
	lic    int
}

func newCluster(names, ssids []string, lic int) (*cluster, error) {
	c := &cluster{nodes: map[string]*node{}, names: names, net: meshsender.NewNet(), ssids: ssids, byPeer: map[uint64]string{}, byConn: map[uint64]string{}, lic: lic}
	for i, n := range names {
		b, err := bk.New(bk.Opts{LicenseVer: lic, Storage: "noop", NodeName: fmt.Sprintf("00:00:00:00:0c:%02x", i+1)})
		if err != nil {
			return nil, err
		}
		sw := b.Svc.VerifCluster()
		nd := c.net.Add(mesh.PeerName(sw.ID()))
		sw.VerifSetGossip(nd)
		x := &node{name: n, b: b, nd: nd, peer: mesh.PeerName(sw.ID())}
		c.byPeer[sw.ID()] = n
		c.nodes[n] = x
	}
	for _, n := range names {
		x := c.nodes[n]
		// no CONNECT packet: the broker does not require one, and a connection event replicated next to the subscription
		// events would put payloads on the wires that the model (which only has subscription keys) does not know
		x.cl = x.b.Attach()
		if _, err := x.cl.Barrier(8 * time.Second); err != nil {
			return nil, err
		}
		k, err := x.b.Key("#/", "rw", time.Unix(0, 0))
		if err != nil {
			return nil, err
		}
		x.key = k
		x.connID = uint64(x.cl.Srv.LocalID())
		c.byConn[x.connID] = n
	}
	// the CONNECT of each client was announced to the cluster: flush those payloads so that the schedule starts clean
	c.drain()
	return c, nil
}

func (c *cluster) close() {
	for _, x := range c.nodes {
		x.b.Close()
	}
}

// restart replaces broker n by a new one under the same node name (new process: empty replica, new client connection
// that never subscribes); all its mesh connections are broken.
func (c *cluster) restart(n string) error {
	old := c.nodes[n]
	old.b.Close()
	b, err := bk.New(bk.Opts{LicenseVer: c.lic, Storage: "noop", NodeName: old.b.Opts.NodeName})
	if err != nil {
		return err
	}
	sw := b.Svc.VerifCluster()
	if mesh.PeerName(sw.ID()) != old.peer {
		return fmt.Errorf("restarted broker has another peer name")
	}
	nd := c.net.Replace(old.peer)
	sw.VerifSetGossip(nd)
	x := &node{name: n, b: b, nd: nd, peer: old.peer}
	x.cl = b.Attach()
	if _, err := x.cl.Barrier(8 * time.Second); err != nil {
		return err
	}
	if x.key, err = b.Key("#/", "rw", time.Unix(0, 0)); err != nil {
		return err
	}
	x.connID = uint64(x.cl.Srv.LocalID())
	c.byConn[x.connID] = n
	c.nodes[n] = x
	return nil
}

// drain picks and delivers until nothing is queued or in flight.
func (c *cluster) drain() {
	for round := 0; round < 50; round++ {
		busy := false
		for _, a := range c.names {
			for _, b := range c.names {
				if a == b {
					continue
				}
				x, y := c.nodes[a], c.nodes[b]
				if g, bc := x.nd.Pending(y.peer); g || bc > 0 {
					x.nd.Pick(y.peer, x.peer)
					busy = true
				}
				for len(x.nd.Wire[y.peer]) > 0 {
					c.net.Deliver(x.peer, y.peer, y.b.Svc.VerifCluster())
					busy = true
				}
			}
		}
		if !busy {
			return
		}
	}
}

func (c *cluster) coalesced() int {
	n := 0
	for _, a := range c.names {
		for _, b := range c.names {
			if a != b {
				n += c.nodes[a].nd.Coalesced(c.nodes[b].peer)
			}
		}
	}
	return n
}

// stopPeerTimers stops the 5 ms flush ticker of every peer object that exists by now: peer frames are then flushed by
// the probes only (a ticker that has taken the queue but not yet sent it would make a probe miss its own frame).
func (c *cluster) stopPeerTimers() {
	for _, n := range c.names {
		for _, m := range c.names {
			if m != n {
				c.nodes[n].b.Svc.VerifCluster().VerifStopPeerTimers(c.nodes[m].peer)
			}
		}
	}
}

// members reads every broker's member list.
func (c *cluster) members() map[string][]string {
	out := map[string][]string{}
	for _, n := range c.names {
		out[n] = []string{}
		for _, m := range c.names {
			if m != n && c.nodes[n].b.Svc.VerifCluster().VerifHasPeer(c.nodes[m].peer) {
				out[n] = append(out[n], m)
			}
		}
	}
	return out
}

// observe reads, for every broker, the remote entries of its real trie and the subscription events its replica holds active.
func (c *cluster) observe() (map[string][][]string, map[string][][]string) {
	routes, active := map[string][][]string{}, map[string][][]string{}
	ssidName := map[uint32]string{}
	for _, s := range c.ssids {
		ssidName[hash.OfString(s)] = s
	}
	peerByID := map[string]string{}
	for _, n := range c.names {
		peerByID[c.nodes[n].peer.String()] = n
	}
	for _, n := range c.names {
		x := c.nodes[n]
		routes[n], active[n] = [][]string{}, [][]string{}
		for _, e := range x.b.Svc.VerifTrie().VerifEntries() {
			if e.Type != message.SubscriberRemote || len(e.Ssid) != 2 {
				continue
			}
			if s, ok := ssidName[e.Ssid[1]]; ok {
				routes[n] = append(routes[n], []string{peerByID[e.ID], s})
			}
		}
		x.b.Svc.VerifCluster().VerifState().Subscriptions(func(ev *event.Subscription, v event.Value) {
			owner, ok := c.byPeer[ev.Peer]
			if !ok || len(ev.Ssid) != 2 || !v.IsAdded() {
				return
			}
			if s, ok := ssidName[ev.Ssid[1]]; ok {
				active[n] = append(active[n], []string{owner, s})
			}
		})
		sort.Slice(routes[n], func(i, j int) bool { return strings.Join(routes[n][i], "/") < strings.Join(routes[n][j], "/") })
		sort.Slice(active[n], func(i, j int) bool { return strings.Join(active[n][i], "/") < strings.Join(active[n][j], "/") })
	}
	return routes, active
}

// abstractPayload decodes wire bytes and reports, per model key, whether add / remove times are present and how it reads.
func (c *cluster) abstractPayload(buf []byte) map[string]map[string]bool {
	out := map[string]map[string]bool{}
	byConn := c.byConn
	for _, o := range c.names {
		for _, q := range c.names {
			for _, s := range c.ssids {
				out[o+"."+q+"/"+s] = map[string]bool{"a": false, "d": false, "on": false}
			}
		}
	}
	st, err := event.DecodeState(buf)
	if err != nil {
		return out
	}
	ssidName := map[uint32]string{}
	for _, s := range c.ssids {
		ssidName[hash.OfString(s)] = s
	}
	st.Subscriptions(func(ev *event.Subscription, v event.Value) {
		owner, ok := c.byPeer[ev.Peer]
		connOf, ok2 := byConn[uint64(ev.Conn)]
		if !ok || !ok2 || len(ev.Ssid) != 2 {
			return
		}
		if s, ok := ssidName[ev.Ssid[1]]; ok {
			out[owner+"."+connOf+"/"+s] = map[string]bool{"a": v.AddTime() > 0, "d": v.DelTime() > 0, "on": v.IsAdded()}
		}
	})
	return out
}

// Replay executes one schedule on real brokers.
func Replay(walk []json.RawMessage, names, ssids []string, label string, lic int) (*core.Trace, error) {
	clockMu.Lock()
	defer clockMu.Unlock()
	saved := rc.Now
	var tick int64 = 1000
	rc.Now = func() int64 { return atomic.AddInt64(&tick, 1) }
	defer func() { rc.Now = saved }()
	c, err := newCluster(names, ssids, lic)
	if err != nil {
		return nil, err
	}
	defer c.close()
	tr := &core.Trace{Label: label}
	tr.Events = append(tr.Events, core.Ev(map[string]any{"e": "reset"}))
	for _, raw := range walk {
		var a action
		if err := json.Unmarshal(raw, &a); err != nil {
			return nil, err
		}
		ev := map[string]any{"e": a.N, "b": a.B}
		x := c.nodes[a.B]
		switch a.N {
		case "sub", "unsub":
			ev["s"] = a.S
			x.mid++
			topic := []byte(x.key + "/" + a.S + "/")
			if a.N == "sub" {
				x.cl.Send(&mqtt.Subscribe{MessageID: x.mid, Subscriptions: []mqtt.TopicQOSTuple{{Topic: topic}}})
			} else {
				x.cl.Send(&mqtt.Unsubscribe{MessageID: x.mid, Topics: []mqtt.TopicQOSTuple{{Topic: topic}}})
			}
			if _, err := x.cl.Barrier(8 * time.Second); err != nil {
				return nil, fmt.Errorf("%s: %v", a.N, err)
			}
		case "periodic":
			x.nd.GossipNeighbourSubset(x.b.Svc.VerifCluster().Gossip())
		case "pick":
			ev["to"] = a.To
			msgs := x.nd.Pick(c.nodes[a.To].peer, x.peer)
			if len(msgs) == 0 {
				ev["kind"] = "none"
				ev["p"] = c.abstractPayload(nil)
			} else {
				ev["kind"] = msgs[0].Kind
				ev["p"] = c.abstractPayload(msgs[0].Buf)
			}
		case "linkdown", "linkup":
			ev["to"] = a.To
			y := c.nodes[a.To]
			if a.N == "linkdown" {
				c.net.SetDown(x.peer, y.peer, true, nil, nil)
			} else {
				c.net.SetDown(x.peer, y.peer, false, x.b.Svc.VerifCluster().Gossip(), y.b.Svc.VerifCluster().Gossip())
			}
		case "restart":
			if err := c.restart(a.B); err != nil {
				return nil, fmt.Errorf("restart: %v", err)
			}
			x = c.nodes[a.B]
		case "gc":
			ev["to"] = a.To
			x.b.Svc.VerifCluster().VerifPeerOffline(c.nodes[a.To].peer)
		case "deliver":
			ev["to"] = a.To
			y := c.nodes[a.To]
			if _, ok, err := c.net.Deliver(x.peer, y.peer, y.b.Svc.VerifCluster()); !ok || err != nil {
				ev["e"] = "deliver-none"
			}
		default:
			return nil, fmt.Errorf("unknown action %q", a.N)
		}
		c.stopPeerTimers()
		ev["routes"], ev["active"] = c.observe()
		ev["coalesced"] = c.coalesced()
		ev["members"] = c.members()
		tr.Events = append(tr.Events, core.Ev(ev))
	}
	if debugHook != nil {
		debugHook(c)
	}
	// forwarding probes: a real publish on every broker for every ssid (the trace spec constrains them at quiescence)
	for _, b := range names {
		for _, s := range ssids {
			ev, err := c.probe(b, s)
			if err != nil {
				return nil, err
			}
			ev["coalesced"] = c.coalesced()
			tr.Events = append(tr.Events, core.Ev(ev))
		}
	}
	return tr, nil
}

var probeSeq int64
var debugHook func(*cluster)

// probe publishes one message on broker b for ssid s, moves the peer frames it produces to their destinations and
// reports which brokers were sent a frame and how many copies each broker's client received.
func (c *cluster) probe(b, s string) (map[string]any, error) {
	x := c.nodes[b]
	for _, n := range c.names {
		c.nodes[n].nd.TakeUnicasts()
	}
	payload := fmt.Sprintf("probe-%d", atomic.AddInt64(&probeSeq, 1))
	x.mid++
	x.cl.Send(&mqtt.Publish{Header: mqtt.Header{QOS: 1}, MessageID: x.mid, Topic: []byte(x.key + "/" + s + "/"), Payload: []byte(payload)})
	got := map[string]int{}
	count := func(n string, pk []mqtt.Message) {
		for _, m := range pk {
			if p, ok := m.(*mqtt.Publish); ok && string(p.Payload) == payload {
				got[n]++
			}
		}
	}
	pk, err := x.cl.Barrier(8 * time.Second)
	if err != nil {
		return nil, fmt.Errorf("probe publish: %v", err)
	}
	count(b, pk)
	// the publish was handled before the PINGRESP: the frames sit in the queues of the peers (flushed by a 5 ms ticker in
	// production); flush them now, so that the probe does not depend on timing
	fwd := map[string]bool{}
	for _, n := range c.names {
		if p := x.b.Svc.VerifCluster().VerifPeer(c.nodes[n].peer); n != b && p != nil {
			p.VerifFlush()
		}
	}
	for _, u := range x.nd.TakeUnicasts() {
		dst, ok := c.byPeer[uint64(u.Src)]
		if !ok {
			continue
		}
		fwd[dst] = true
		c.nodes[dst].b.Svc.VerifCluster().OnGossipUnicast(x.peer, u.Buf)
	}
	for _, n := range c.names {
		if n == b {
			continue
		}
		pk, err := c.nodes[n].cl.Barrier(8 * time.Second)
		if err != nil {
			return nil, fmt.Errorf("probe barrier: %v", err)
		}
		count(n, pk)
	}
	fl, gl := []string{}, [][]any{}
	for _, n := range c.names {
		if fwd[n] {
			fl = append(fl, n)
		}
		if got[n] > 0 {
			gl = append(gl, []any{n, got[n]})
		}
	}
	return map[string]any{"e": "probe", "b": b, "s": s, "fwd": fl, "got": gl}, nil
}

func set(xs []string) string {
	q := make([]string, len(xs))
	for i, x := range xs {
		q[i] = fmt.Sprintf("%q", x)
	}
	return "{" + strings.Join(q, ",") + "}"
}

// Run is the C05 check.
func Run(c *core.Ctx) {
	c.Level = "model_checking"
	Explore(c)
	// the same property at the level of client sessions: whole behaviours of Session.tla (wildcard filters, several
	// connections behind one route, presence watchers and last wills crossing brokers) on 2 and 3 real brokers,
	// gossip run to quiescence after every request; plus overlapping requests on two brokers
	num := 12
	if !c.Quick() {
		num = 50
	}
	what := "at gossip quiescence the cluster does not behave like the one broker of the session specification (deliveries, notifications, routes)"
	session.ClusterStage(c, what, 2, false, []string{"pubsub", "presence", "ending"}, num, 14)
	session.ClusterStage(c, what, 3, false, []string{"pubsub", "ending"}, num/2, 14)
	session.HammerStage(c, what, 2, 60, 2)
	c.Finish()
}

// RunC13 is the C13 check: the delta half on the CRDT traces, the queueing half on the gossip schedules.
func RunC13(c *core.Ctx) {
	c.Level = "model_checking"
	n1 := vcrdt.Explore(c, "the delta returned by a merge is not exactly what changed the local state (or replicas diverge)", c.Quick())
	rule1, _ := c.Cov["rule"].(string)
	n2 := Explore(c)
	rule2, _ := c.Cov["rule"].(string)
	c.Set("distinct_nontrivial", n1+n2)
	c.Set("rule", "(delta half) "+rule1+"  ||  (queueing half) "+rule2)
	c.Finish()
}

// Explore is the body shared by C05 and the queueing half of C13.
func Explore(c *core.Ctx) int64 {
	rng := rand.New(rand.NewSource(c.Seed))
	ssids := []string{"sa", "sb"}
	type conf struct {
		names           []string
		ops, per, n, dp int
		faults          int
		restarts        bool // broker restarts are among the faults
		marked          bool // 4 brokers: simulation only, keeping the behaviours with different coalesced payloads on two links of one broker
	}
	confs := []conf{{[]string{"b1", "b2"}, 3, 1, 25, 40, 0, false, false}, {[]string{"b1", "b2", "b3"}, 3, 1, 25, 70, 0, false, false}, {[]string{"b1", "b2"}, 4, 1, 30, 60, 1, false, false}, {[]string{"b1", "b2"}, 4, 1, 20, 60, 1, true, false}, {[]string{"b1", "b2", "b3", "b4"}, 4, 3, 30, 110, 0, false, true}}
	if !c.Quick() {
		confs = []conf{{[]string{"b1", "b2"}, 4, 2, 120, 60, 0, false, false}, {[]string{"b1", "b2", "b3"}, 4, 1, 150, 90, 0, false, false}, {[]string{"b1", "b2"}, 4, 1, 120, 70, 2, false, false}, {[]string{"b1", "b2", "b3"}, 3, 1, 80, 100, 1, false, false}, {[]string{"b1", "b2"}, 4, 1, 80, 70, 2, true, false}, {[]string{"b1", "b2", "b3"}, 3, 1, 60, 100, 1, true, false}, {[]string{"b1", "b2", "b3", "b4"}, 5, 4, 150, 140, 0, false, true}}
	}
	var nontrivial int64
	for ci, k := range confs {
		if k.restarts && c.ID != "C05" {
			continue // restarts add nothing to what a payload carries (C13)
		}
		mc := func(gen string, ops, per int, view bool, asIs bool) string {
			faults := k.faults
			if gen == "none" && faults > 1 {
				faults = 1 // exhaustive: one fault (two faults x three operations does not finish in an hour); simulation: as configured
			}
			dev := "FALSE"
			if asIs {
				dev = "TRUE"
			}
			s := fmt.Sprintf("CONSTANTS\n Brokers = %s\n Ssids = %s\n GcAsCode = %s\n MaxOps = %d\n MaxPeriodic = %d\n MaxFaults = %d\n Restarts = %s\n Gen = %q\nINIT MCInit\nNEXT MCNext\n", set(k.names), set(ssids), dev, ops, per, faults, strings.ToUpper(fmt.Sprint(k.restarts)), gen)
			if asIs {
				s += "INVARIANTS Dump\n"
			} else {
				s += "INVARIANTS RoutingAtQuiescence ForwardingAtQuiescence ConvergedAtQuiescence Dump\n"
			}
			if view {
				s += "VIEW View\n"
			}
			return s
		}
		// design level (exhaustive): with union coalescing, and a garbage collection that only forgets the peer, the routing
		// invariant holds at quiescence (also across a link going away and coming back)
		mcOps := k.ops
		if len(k.names) == 3 || k.faults > 0 {
			mcOps = 2
		}
		if k.faults > 0 && !c.Quick() && len(k.names) == 2 {
			mcOps = 3
		}
		if !k.marked && !(len(k.names) >= 3 && k.faults > 0) {
			// (three brokers with a fault are simulated only: the exhaustive run does not finish in an hour)
			c.ModelCheck("MC_Gossip", mc("none", mcOps, k.per, true, false), tlc.Opts{})
		}
		gen := "sim"
		if k.marked {
			gen = "simmark"
		}
		var lines []string
		// schedules with faults are generated from the model of what the code does (the garbage-collection step is enabled
		// for the peers the real member list holds)
		r, err := tlc.Run(tlc.Opts{SpecDir: core.SpecDir(), Module: "MC_Gossip", Cfg: mc(gen, k.ops, k.per, false, k.faults > 0), Workers: 1, Timeout: 40 * time.Minute, SimNum: k.n, SimDepth: k.dp, Seed: c.Seed + int64(ci),
			OnTag: func(tag, js string) {
				if tag == "BEH" {
					lines = append(lines, strings.TrimSuffix(strings.TrimSpace(js), "]"))
				}
			}})
		if err != nil || r.Violated != "" || r.ErrText != "" || r.TimedOut {
			core.Fatalf("gossip simulation failed: %v %s", err, r.Brief())
		}
		walks := core.Behaviours(lines, k.n, rng)
		c.Add("simulated_schedules", int64(len(walks)))
		var traces []*core.Trace
		byLabel := map[string]*core.Trace{}
		for i, w := range walks {
			t, err := Replay(w, k.names, ssids, fmt.Sprintf("gossip-%db-f%d-%d", len(k.names), k.faults, i), 1+(i%3))
			if err != nil {
				core.Fatalf("replay: %v", err)
			}
			traces = append(traces, t)
			byLabel[t.Label] = t
			c.Add("evaluations", int64(len(t.Events)-1))
		}
		if len(traces) > 0 {
			t := traces[rng.Intn(len(traces))]
			var head []json.RawMessage
			for i, e := range t.Events {
				if i < 8 {
					head = append(head, e)
				}
			}
			c.Sample(map[string]any{"label": t.Label, "events_head": head})
		}
		tcfg := func(asIs bool) string {
			dev := "FALSE"
			if asIs {
				dev = "TRUE"
			}
			return fmt.Sprintf("CONSTANTS\n Brokers = %s\n Ssids = %s\n GcAsCode = %s\nINIT TraceInit\nNEXT TraceNext\nCONSTRAINT MarkC\nINVARIANT TraceInv\nPOSTCONDITION AllConsumed\nCHECK_DEADLOCK FALSE\n", set(k.names), set(ssids), dev)
		}
		rej := c.ValidateTraces(traces, core.ValidateOpts{Module: "Gossip_Trace", Cfg: tcfg(false), ChunkSize: 1500})
		// how many coalescing steps / garbage collections of a member happened up to (and including) event idx of a trace
		history := func(t *core.Trace, idx int) (co int, gc bool, restarted bool) {
			for i := 0; i <= idx && i < len(t.Events); i++ {
				var e struct {
					E         string `json:"e"`
					Coalesced int    `json:"coalesced"`
				}
				json.Unmarshal(t.Events[i], &e)
				if e.E == "gc" {
					gc = true
				}
				if e.E == "restart" {
					restarted = true
				}
				if e.E != "reset" {
					co = e.Coalesced
				}
			}
			return
		}
		// a schedule with a garbage-collection step that the intended design rejects is validated again against the model of
		// what the code does around garbage collection (listed finding gc_peer_return): only what that model explains is
		// attributed to the finding
		var again []*core.Trace
		var first []core.Rejection
		for _, rj := range rej {
			_, gc, rs := history(rj.Trace, rj.Index)
			// (C13 is about what a payload carries, not about routing: for it the model of the code is the reference after a
			// garbage collection or a restart, and no finding is involved)
			if (gc && (c.KnownQuiet("gc_peer_return") || c.ID != "C05")) || (rs && (c.KnownQuiet("restart_stale_routes") || c.ID != "C05")) {
				again = append(again, rj.Trace)
				continue
			}
			first = append(first, rj)
		}
		if len(again) > 0 {
			rej2 := c.ValidateTraces(again, core.ValidateOpts{Module: "Gossip_Trace", Cfg: tcfg(true), ChunkSize: 1500})
			bad := map[string]bool{}
			for _, rj := range rej2 {
				bad[rj.Trace.Label] = true
				first = append(first, rj)
			}
			for _, t := range again {
				if !bad[t.Label] && c.ID == "C05" {
					_, gc, rs := history(t, len(t.Events))
					if gc {
						c.Known("gc_peer_return")
						c.Add("schedules_explained_by_gc_peer_return", 1)
					}
					if rs {
						c.Known("restart_stale_routes")
						c.Add("schedules_explained_by_restart_stale_routes", 1)
					}
				}
			}
			c.Add("schedules_revalidated_against_the_gc_deviation", int64(len(again)))
		}
		rej = first
		rejected := map[string]bool{}
		var rest []core.Rejection
		for _, rj := range rej {
			rejected[rj.Trace.Label] = true
			// a listed finding explains a rejection only in a schedule that coalesced payloads in a sender bucket before the
			// rejected step (the finding is identified by that history, not by the property)
			co, _, _ := history(rj.Trace, rj.Index)
			if co > 0 && c.Known("merge_returns_delta") {
				c.Add("schedules_explained_by_merge_returns_delta", 1)
				continue
			}
			rest = append(rest, rj)
		}
		for _, t := range traces {
			if !rejected[t.Label] {
				nontrivial++
			}
		}
		c.ReportRejections(rest, fmt.Sprintf("routing / queued payloads on %d real brokers differ from the gossip model", len(k.names)))
	}
	c.Set("distinct_nontrivial", nontrivial)
	c.Set("rule", "TLC-simulated schedules on 2 and 3 brokers: client subscribe / unsubscribe on two ssids per broker, periodic full-state gossip, per-link pick (gossip bucket first) and FIFO delivery, link down / garbage collection of the unreachable peer / link up with the complete-state exchange, run to quiescence; replayed on real broker.Service + cluster.Swarm objects wired through a transcription of mesh's gossipSender that calls the real State.Merge / Encode; the routing table of every real trie and the activeness of every replica are compared with the model at every quiescent point, the abstract content of every payload put on a wire at every pick, real publishes on every broker at the end of every schedule; a schedule with a gc step rejected by the intended design is validated again against the model of the code (GcAsCode); non-trivial = schedules validated completely (not cut short by a listed finding)")
	c.Assume = append(c.Assume, "reliable FIFO links while a connection is up (what mesh's TCP connections provide); a broken connection loses what was queued and in flight; broadcasts are not re-routed through a third broker while a link is down",
		"the sending side of weaveworks/mesh is a transcription (harness/meshsender), the router's topology computation and goroutines are not run",
		"clock readings come from one strictly increasing counter (every reading later than all earlier ones)")
	return nontrivial
}
