// Package trie binds spec/Trie.tla to internal/message.Trie (property C01).
package trie

import (
	"encoding/json"
	"fmt"
	"math/rand"
	"os"
	"os/exec"
	"sort"
	"strings"
	"sync"
	"sync/atomic"

	"github.com/emitter-io/emitter/internal/message"
	"github.com/emitter-io/emitter/internal/security/hash"
	"github.com/emitter-io/emitter/verif/core"
	"github.com/emitter-io/emitter/verif/drivers/session"
	"github.com/emitter-io/emitter/verif/tlc"
)

type sub struct{ id string }

func (s *sub) ID() string                   { return s.id }
func (s *sub) Type() message.SubscriberType { return message.SubscriberDirect }
func (s *sub) Send(*message.Message) error  { return nil }

// Contract maps a model contract name to a number.
func Contract(c string) uint32 {
	switch c {
	case "c1":
		return 1001
	case "c2":
		return 2002
	}
	return hash.OfString(c)
}

// Ssid maps a model path (contract first) to a real ssid.
func Ssid(words []string) message.Ssid {
	q := make([]uint32, 0, len(words))
	for _, w := range words[1:] {
		q = append(q, hash.OfString(w))
	}
	return message.NewSsid(Contract(words[0]), q)
}

type op struct {
	N string   `json:"n"`
	F []string `json:"f"`
	S string   `json:"s"`
}

type cfg struct {
	Channels [][]string `json:"channels"`
	Subs     []string   `json:"subs"`
	Mode     string     `json:"mode"`
}

type look struct {
	Ch []string   `json:"ch"`
	X  []string   `json:"x"`
	R  [][]string `json:"r"`
}

type obs struct {
	Count int    `json:"count"`
	Nodes int    `json:"nodes"`
	Look  []look `json:"look"`
}

func newTrie(mode string) *message.Trie {
	if mode == "mqtt" {
		return message.NewTrieMQTT()
	}
	return message.NewTrie()
}

func ids(s message.Subscribers) []string {
	out := make([]string, 0, len(s))
	for _, v := range s {
		out = append(out, v.ID())
	}
	sort.Strings(out)
	return out
}

// observe looks every channel up (with and without an exclusion filter); share picks are random, so each lookup is
// repeated and the distinct result sets are logged.
func observe(t *message.Trie, c *cfg, repeat int) obs {
	o := obs{Count: t.Count(), Nodes: t.VerifNodes()}
	for _, ch := range c.Channels {
		ssid := Ssid(ch)
		for _, x := range [][]string{{}, {"s1"}} {
			var filter func(message.Subscriber) bool
			if len(x) > 0 {
				ex := x[0]
				filter = func(s message.Subscriber) bool { return s.ID() != ex }
			}
			seen := map[string]bool{}
			lk := look{Ch: ch, X: x, R: [][]string{}}
			for i := 0; i < repeat; i++ {
				r := ids(t.Lookup(ssid, filter))
				k := strings.Join(r, ",")
				if !seen[k] {
					seen[k] = true
					lk.R = append(lk.R, r)
				}
			}
			o.Look = append(o.Look, lk)
		}
	}
	return o
}

func checkHashes() {
	words := []string{"a", "b", "x", "y", "+", "#", "$share", "g1", "g2"}
	seen := map[uint32]string{Contract("c1"): "c1", Contract("c2"): "c2"}
	for _, w := range words {
		h := hash.OfString(w)
		if o, ok := seen[h]; ok {
			core.Fatalf("hash collision between %q and %q", w, o)
		}
		seen[h] = w
	}
}

// replay executes one walk on a fresh real trie and records the trace.
func replay(c *cfg, walk []json.RawMessage, label string) *core.Trace {
	t := newTrie(c.Mode)
	subs := map[string]*sub{}
	tr := &core.Trace{Label: label}
	tr.Events = append(tr.Events, core.Ev(map[string]any{"e": "reset"}))
	for _, raw := range walk {
		var o op
		if err := json.Unmarshal(raw, &o); err != nil {
			core.Fatalf("bad action %s: %v", raw, err)
		}
		s := subs[o.S]
		if s == nil {
			s = &sub{o.S}
			subs[o.S] = s
		}
		repeat := 1
		switch o.N {
		case "sub":
			t.Subscribe(Ssid(o.F), s)
		case "unsub":
			t.Unsubscribe(Ssid(o.F), s)
		default:
			core.Fatalf("unknown action %q", o.N)
		}
		if hasShare(t) {
			repeat = 12
		}
		tr.Events = append(tr.Events, core.Ev(map[string]any{"e": o.N, "f": o.F, "s": o.S, "obs": observe(t, c, repeat)}))
	}
	return tr
}

// randomWalks generates subscribe / unsubscribe sessions biased towards overlapping wildcard filters.
func randomWalks(mode string, n, length int, rng *rand.Rand) [][]json.RawMessage {
	words := []string{"a", "b", "+"}
	var out [][]json.RawMessage
	for i := 0; i < n; i++ {
		var walk []json.RawMessage
		type pair struct{ f, s string }
		held := map[pair][]string{}
		for len(walk) < length {
			var f []string
			if len(held) > 0 && (rng.Intn(3) == 0 || len(held) >= 7) {
				// unsubscribe something held
				k := rng.Intn(len(held))
				for p, ff := range held {
					if k == 0 {
						b, _ := json.Marshal(map[string]any{"n": "unsub", "f": ff, "s": p.s})
						walk = append(walk, b)
						delete(held, p)
						break
					}
					k--
				}
				continue
			}
			f = []string{"c1"}
			d := 1 + rng.Intn(3)
			for j := 0; j < d; j++ {
				f = append(f, words[rng.Intn(len(words))])
			}
			if mode == "mqtt" && rng.Intn(4) == 0 {
				f = append(f[:len(f)-1], "#")
			}
			sub := fmt.Sprintf("s%d", 1+rng.Intn(4))
			b, _ := json.Marshal(map[string]any{"n": "sub", "f": f, "s": sub})
			walk = append(walk, b)
			held[pair{strings.Join(f, "/"), sub}] = f
		}
		out = append(out, walk)
	}
	return out
}

func hasShare(t *message.Trie) bool {
	sh := hash.OfString("$share")
	for _, e := range t.VerifEntries() {
		if len(e.Ssid) > 1 && e.Ssid[1] == sh {
			return true
		}
	}
	return false
}

func traceCfg(mode string, strict bool) string {
	st := "FALSE"
	if strict {
		st = "TRUE"
	}
	return fmt.Sprintf("CONSTANT Mode = %q\nCONSTANT Strict = "+st+"\nINIT TraceInit\nNEXT TraceNext\nCONSTRAINT MarkC\nPOSTCONDITION AllConsumed\nCHECK_DEADLOCK FALSE\n", mode)
}

func mcCfg(mode, size string, maxS int, export bool) string {
	ex := "FALSE"
	if export {
		ex = "TRUE"
	}
	return fmt.Sprintf("CONSTANTS\n Mode = %q\n Size = %q\n MaxS = %d\n Export = %s\nINIT TrieInit\nNEXT MCNext\nINVARIANTS Refines CountOK PrefixClosed NoOrphans EmptyAgain LookupExact\n", mode, size, maxS, ex)
}

// ConcurrentChild is the helper process of the concurrency clause:  _triechild <mode> <seed> <rounds> <out>
// Several goroutines subscribe / unsubscribe / look up on one real trie; call starts and returns are logged with a
// process-wide sequence number. The Go runtime aborts the process on an unsynchronised map access: the parent reports that.
func ConcurrentChild(args []string) {
	mode := args[0]
	var seed int64
	var rounds int
	fmt.Sscan(args[1], &seed)
	fmt.Sscan(args[2], &rounds)
	out, err := os.Create(args[3])
	if err != nil {
		os.Exit(4)
	}
	defer out.Close()
	filters := [][]string{{"c1", "a"}, {"c1", "a", "b"}, {"c1", "+", "b"}, {"c1", "b"}}
	if mode == "mqtt" {
		filters = append(filters, []string{"c1", "a", "#"})
	}
	chans := [][]string{{"c1", "a"}, {"c1", "a", "b"}, {"c1", "b", "b"}}
	type line struct {
		seq int64
		b   []byte
	}
	var seqNo int64
	for r := 0; r < rounds; r++ {
		t := newTrie(mode)
		var mu sync.Mutex
		var lines []line
		logf := func(m map[string]any) {
			// the sequence number is taken and the line stored under one lock: log order = real-time order
			mu.Lock()
			seqNo++
			lines = append(lines, line{seqNo, core.Ev(m)})
			mu.Unlock()
		}
		logf(map[string]any{"e": "reset"})
		var wg sync.WaitGroup
		var nextID int64
		for g := 0; g < 3; g++ {
			wg.Add(1)
			go func(g int) {
				defer wg.Done()
				rng := rand.New(rand.NewSource(seed*1000 + int64(r*10+g)))
				me := &sub{fmt.Sprintf("s%d", g+1)}
				for i := 0; i < 4; i++ {
					id := atomic.AddInt64(&nextID, 1)
					f := filters[rng.Intn(len(filters))]
					switch rng.Intn(3) {
					case 0:
						logf(map[string]any{"e": "call", "id": id, "op": "sub", "f": f, "s": me.id, "ch": []string{}})
						t.Subscribe(Ssid(f), me)
						logf(map[string]any{"e": "ret", "id": id})
					case 1:
						logf(map[string]any{"e": "call", "id": id, "op": "unsub", "f": f, "s": me.id, "ch": []string{}})
						t.Unsubscribe(Ssid(f), me)
						logf(map[string]any{"e": "ret", "id": id})
					default:
						ch := chans[rng.Intn(len(chans))]
						logf(map[string]any{"e": "call", "id": id, "op": "look", "f": []string{}, "s": "", "ch": ch})
						res := ids(t.Lookup(Ssid(ch), nil))
						logf(map[string]any{"e": "ret", "id": id, "res": res})
					}
				}
			}(g)
		}
		wg.Wait()
		for _, ln := range lines {
			out.Write(append(ln.b, '\n'))
		}
	}
	// hammer: unlogged, really parallel callers on one trie. An unsynchronised map access makes the Go runtime abort
	// the process ("concurrent map read and map write"), which the parent reports; afterwards the index must be empty.
	t := newTrie(mode)
	var wg sync.WaitGroup
	for g := 0; g < 6; g++ {
		wg.Add(1)
		go func(g int) {
			defer wg.Done()
			rng := rand.New(rand.NewSource(seed + int64(g)))
			me := &sub{fmt.Sprintf("h%d", g)}
			for i := 0; i < 30000; i++ {
				f := filters[rng.Intn(len(filters))]
				switch rng.Intn(3) {
				case 0:
					t.Subscribe(Ssid(f), me)
				case 1:
					t.Unsubscribe(Ssid(f), me)
				default:
					t.Lookup(Ssid(chans[rng.Intn(len(chans))]), nil)
				}
			}
			for _, f := range filters {
				t.Unsubscribe(Ssid(f), me)
			}
		}(g)
	}
	wg.Wait()
	fmt.Fprintf(out, "{\"e\":\"hammer\",\"count\":%d,\"nodes\":%d}\n", t.Count(), t.VerifNodes())
}

// concurrent runs the child and validates its log for linearizability.
func concurrent(c *core.Ctx, mode string, rounds int) {
	self, _ := os.Executable()
	f, err := os.CreateTemp("", "vtrie-*.ndjson")
	if err != nil {
		core.Fatalf("tempfile: %v", err)
	}
	f.Close()
	defer os.Remove(f.Name())
	cmd := exec.Command(self, "_triechild", mode, fmt.Sprint(c.Seed), fmt.Sprint(rounds), f.Name())
	outp, err := cmd.CombinedOutput()
	if err != nil {
		msg := string(outp)
		if strings.Contains(msg, "concurrent map") {
			c.Violation("concurrent callers of message.Trie ("+mode+"): the Go runtime detected an unsynchronised map access: "+core.Tail(msg, 400), outp)
			return
		}
		core.Fatalf("trie child: %v\n%s", err, core.Tail(msg, 1500))
	}
	data, _ := os.ReadFile(f.Name())
	var traces []*core.Trace
	var cur *core.Trace
	for _, ln := range strings.Split(string(data), "\n") {
		if ln == "" {
			continue
		}
		if strings.Contains(ln, `"e":"hammer"`) {
			if !strings.Contains(ln, `"count":0,"nodes":1`) {
				c.Violation("concurrent callers of message.Trie ("+mode+"): after every subscription was removed the index is not empty: "+ln, []byte(ln))
			}
			c.Add("hammer_operations", 6*30000)
			continue
		}
		if strings.Contains(ln, `"e":"reset"`) {
			cur = &core.Trace{Label: fmt.Sprintf("%s-concurrent-%d", mode, len(traces))}
			traces = append(traces, cur)
		}
		cur.Events = append(cur.Events, []byte(ln))
	}
	c.Add("concurrent_rounds", int64(len(traces)))
	cfg := fmt.Sprintf("CONSTANT Mode = %q\nINIT Init\nNEXT Next\nCONSTRAINT MarkC\nPOSTCONDITION AllConsumed\nCHECK_DEADLOCK FALSE\n", mode)
	rej := c.ValidateTraces(traces, core.ValidateOpts{Module: "Trie_Lin", Cfg: cfg, ChunkSize: 400, DFS: true})
	c.ReportRejections(rej, "concurrent callers of message.Trie ("+mode+"): no linearization explains the lookups returned")
}

// Run is the C01 check.
func Run(c *core.Ctx) {
	c.Level = "model_checking"
	checkHashes()
	rng := rand.New(rand.NewSource(c.Seed))
	type plan struct {
		size      string
		mcMax     int // exhaustive invariant check
		expMax    int // exported graph
		keepLoops float64
		simNum    int
		simDepth  int
	}
	p := plan{size: "S", mcMax: 3, expMax: 2, keepLoops: 0.15}
	if !c.Quick() {
		p = plan{size: "L", mcMax: 3, expMax: 2, keepLoops: 0.3}
	}
	var nontrivial int64
	for _, mode := range []string{"emitter", "mqtt"} {
		// 1. design level: the code-shaped lookups and pruning satisfy the declarative property (exhaustive)
		mcMax := p.mcMax
		if p.size == "L" && mode == "mqtt" {
			// (with '#' the L alphabet has 3x the filters: |S| <= 3 there is the S configuration's job, L goes to |S| <= 2)
			mcMax = 2
			c.ModelCheck("MC_Trie", mcCfg(mode, "S", 3, false), tlc.Opts{})
		}
		c.ModelCheck("MC_Trie", mcCfg(mode, p.size, mcMax, false), tlc.Opts{})
		// 2. export the state graph of the reduced config and walk every edge on the real trie
		g := core.NewGraph()
		g.IsSet = func(path []string) bool { return len(path) == 0 }
		var conf cfg
		expSize := p.size
		if p.size == "L" && mode == "mqtt" {
			expSize = "S" // (the L graph has 14.5 M edges with '#': the S graph is exported, completely)
		}
		r := c.ModelCheck("MC_Trie", mcCfg(mode, expSize, p.expMax, true), tlc.Opts{OnTag: func(tag, js string) {
			switch tag {
			case "EDGE":
				if err := g.AddJSON(js); err != nil {
					core.Fatalf("EDGE: %v", err)
				}
			case "CFG":
				json.Unmarshal([]byte(js), &conf)
			}
		}})
		_ = r
		if len(conf.Channels) == 0 || g.Edges == 0 {
			core.Fatalf("no CFG/EDGE lines from TLC")
		}
		walks, covered, unreach := g.Walks(g.Key("[]"), 60, rng, p.keepLoops)
		if unreach > 0 {
			core.Fatalf("%d exported edges unreachable from the initial state (state key mismatch)", unreach)
		}
		core.Logf("trie %s: %d edges exported, %d covered by %d walks", mode, g.Edges, covered, len(walks))
		if maxW := 3000; len(walks) > maxW {
			// (thorough: a seeded sample of the covering walks; every walk still starts at the empty index)
			rng.Shuffle(len(walks), func(i, j int) { walks[i], walks[j] = walks[j], walks[i] })
			walks = walks[:maxW]
		}
		c.Add("edges_exported", int64(g.Edges))
		c.Add("edges_replayed", int64(covered))
		// beyond the exported graph (|S| <= 2): seeded random sessions with up to 7 subscriptions at a time over filters
		// of depth <= 3 with '+' at every position (and '#' in mqtt mode), 4 subscribers - R -> V, TLC is the oracle
		walks = append(walks, randomWalks(mode, map[bool]int{true: 80, false: 500}[c.Quick()], 30, rng)...)
		traces := make([]*core.Trace, len(walks))
		var wg sync.WaitGroup
		sem := make(chan struct{}, 8)
		for i := range walks {
			wg.Add(1)
			sem <- struct{}{}
			go func(i int) {
				defer wg.Done()
				defer func() { <-sem }()
				traces[i] = replay(&conf, walks[i], fmt.Sprintf("%s-walk-%d", mode, i))
			}(i)
		}
		wg.Wait()
		for _, t := range traces {
			c.Add("evaluations", int64(len(t.Events)-1))
			if nt := nontrivialTrace(t); nt {
				nontrivial++
			}
		}
		if len(traces) > 0 {
			c.Sample(map[string]any{"mode": mode, "trace_head": rawHead(traces[rng.Intn(len(traces))], 4)})
		}
		// diagnostic pass: exact agreement of Count / node count with the model in every state (never a verdict)
		if drej := c.ValidateTraces(traces, core.ValidateOpts{Module: "Trie_Trace", Cfg: traceCfg(mode, true), ChunkSize: 4000, NoCount: true}); len(drej) > 0 {
			c.Add("diagnostic_internal_mismatches", int64(len(drej)))
			core.Logf("diagnostic: %d traces differ from the model in Count/node count in a non-empty state (not a verdict)", len(drej))
		}
		rej := c.ValidateTraces(traces, core.ValidateOpts{Module: "Trie_Trace", Cfg: traceCfg(mode, false), ChunkSize: 4000})
		c.ReportRejections(rej, "real message.Trie ("+mode+") disagrees with the C01 matching relation / index bookkeeping")
		// concurrency clause: 3 goroutines x 4 operations on one trie, many rounds, validated for linearizability
		rounds := 60
		if !c.Quick() {
			rounds = 3000
		}
		concurrent(c, mode, rounds)
	}
	// the request path in front of the index (SUBSCRIBE / UNSUBSCRIBE / PUBLISH through a real broker: per-connection
	// counters decide whether the index is touched at all), sequentially and with overlapping requests
	num := 40
	if !c.Quick() {
		num = 400
	}
	session.SequentialStage(c, "through a real broker, clients did not receive exactly what the subscriptions in force entitle them to", "pubsub", num, 16)
	session.HammerStage(c, "through a real broker, the index after overlapping requests is not the set of acknowledged subscriptions", 4, 100, 1)
	c.Set("distinct_nontrivial", nontrivial)
	c.Set("rule", "a replayed walk of the exported TLC state graph is non-trivial when, somewhere in it, one lookup returned a non-empty and another an empty subscriber set; walks are distinct by construction (each covers edges no earlier walk covered)")
	c.Set("exhaustive", true)
	c.Assume = append(c.Assume, "murmur hashes of the model's words are pairwise distinct (checked at start)",
		"bounds: literals {a,b}, '+', '#', one or two share groups, 2-3 subscribers, filter depth <= 2 (quick) / 3 (thorough), |S| <= 3 for the invariants and <= 2 for the exported graph")
	c.Finish()
}

func rawHead(t *core.Trace, n int) []any {
	var out []any
	for i, e := range t.Events {
		if i >= n {
			break
		}
		var ev struct {
			E   string   `json:"e"`
			F   []string `json:"f"`
			S   string   `json:"s"`
			Obs obs      `json:"obs"`
		}
		json.Unmarshal(e, &ev)
		m := map[string]any{"e": ev.E}
		if ev.E != "reset" {
			m["f"], m["s"], m["count"], m["nodes"] = ev.F, ev.S, ev.Obs.Count, ev.Obs.Nodes
			var hits []any
			for _, l := range ev.Obs.Look {
				if len(l.R) > 0 && len(l.R[0]) > 0 && len(hits) < 3 {
					hits = append(hits, l)
				}
			}
			m["nonempty_lookups_head"] = hits
			m["lookups_logged"] = len(ev.Obs.Look)
		}
		out = append(out, m)
	}
	return out
}

func nontrivialTrace(t *core.Trace) bool {
	empty, nonempty := false, false
	for _, e := range t.Events {
		var ev struct {
			Obs obs `json:"obs"`
		}
		if json.Unmarshal(e, &ev) != nil {
			continue
		}
		for _, l := range ev.Obs.Look {
			for _, r := range l.R {
				if len(r) == 0 {
					empty = true
				} else {
					nonempty = true
				}
			}
		}
	}
	return empty && nonempty
}
