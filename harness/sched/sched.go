// Package sched forces thread schedules onto real code through the verif.At gates of the repository: every
// controlled goroutine parks at each gate it reaches and continues only when the scheduler releases it.
package sched

import (
	"bytes"
	"runtime"
	"strconv"
	"sync"
	"time"

	"github.com/emitter-io/emitter/internal/verif"
)

func goid() int64 {
	var buf [64]byte
	n := runtime.Stack(buf[:], false)
	f := bytes.Fields(buf[:n])
	id, _ := strconv.ParseInt(string(f[1]), 10, 64)
	return id
}

// Event is what a controlled thread reports: it parked at a gate, or its current call returned.
type Event struct {
	Gate string // "" when the call returned
}

// Thread is one controlled goroutine.
type Thread struct {
	Name    string
	events  chan Event
	release chan struct{}
	calls   chan func()
	parked  bool
}

// Sched owns the controlled goroutines of one object under test.
type Sched struct {
	mu      sync.Mutex
	byGoid  map[int64]*Thread
	Threads map[string]*Thread
	obj     interface{}
}

var active sync.Mutex // one scheduler at a time owns the process-wide hook

// New installs the gate hook for gates whose object is obj.
func New(obj interface{}) *Sched {
	active.Lock()
	s := &Sched{byGoid: map[int64]*Thread{}, Threads: map[string]*Thread{}, obj: obj}
	verif.SetHook(func(point string, o interface{}) {
		if o != s.obj {
			return
		}
		s.mu.Lock()
		t := s.byGoid[goid()]
		s.mu.Unlock()
		if t == nil {
			return // not a controlled goroutine (e.g. a timer)
		}
		t.events <- Event{Gate: point}
		<-t.release
	})
	return s
}

// SetObj changes the object whose gates are controlled.
func (s *Sched) SetObj(obj interface{}) { s.obj = obj }

// Close removes the hook and lets every parked goroutine run to completion.
func (s *Sched) Close() {
	verif.SetHook(nil)
	for _, t := range s.Threads {
		close(t.calls)
		go func(t *Thread) {
			for {
				select {
				case t.release <- struct{}{}:
				case <-t.events:
				case <-time.After(200 * time.Millisecond):
					return
				}
			}
		}(t)
	}
	active.Unlock()
}

// Spawn creates a controlled goroutine that executes the calls it is given, one at a time.
func (s *Sched) Spawn(name string) *Thread {
	t := &Thread{Name: name, events: make(chan Event, 1), release: make(chan struct{}), calls: make(chan func())}
	s.Threads[name] = t
	ready := make(chan struct{})
	go func() {
		s.mu.Lock()
		s.byGoid[goid()] = t
		s.mu.Unlock()
		close(ready)
		for f := range t.calls {
			f()
			t.events <- Event{}
		}
	}()
	<-ready
	return t
}

// Start begins a new call on an idle thread and waits until it parks at a gate or the call returns.
func (t *Thread) Start(f func(), timeout time.Duration) (Event, bool) {
	t.calls <- f
	return t.wait(timeout)
}

// Resume releases a parked thread and waits for its next gate or the return of the call.
func (t *Thread) Resume(timeout time.Duration) (Event, bool) {
	t.release <- struct{}{}
	return t.wait(timeout)
}

func (t *Thread) wait(timeout time.Duration) (Event, bool) {
	select {
	case e := <-t.events:
		t.parked = e.Gate != ""
		return e, true
	case <-time.After(timeout):
		return Event{}, false
	}
}

// Parked tells whether the thread sits at a gate.
func (t *Thread) Parked() bool { return t.parked }
