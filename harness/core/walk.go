package core

import (
	"encoding/json"
	"math/rand"
	"sort"
)

// Edge of an exported TLC state graph: action (raw JSON), from-state key, to-state key.
type Edge struct {
	A    json.RawMessage
	From string
	To   string
	seen bool
}

// Graph is the state graph rebuilt from EDGE lines.
type Graph struct {
	Out   map[string][]*Edge
	Edges int
	dedup map[string]bool
	// IsSet tells which JSON arrays of a state are TLA+ sets (their order in ToJson output is not canonical);
	// path lists the object keys from the root of the state, "*" standing for an array level.
	IsSet func(path []string) bool
}

// canon returns a canonical key of a state: object keys sorted, set-arrays sorted by their elements' canonical form.
func (g *Graph) canon(raw json.RawMessage) string {
	if g.IsSet == nil {
		return string(raw)
	}
	var v any
	if err := json.Unmarshal(raw, &v); err != nil {
		return string(raw)
	}
	var walk func(v any, path []string) any
	walk = func(v any, path []string) any {
		switch x := v.(type) {
		case map[string]any:
			out := make(map[string]any, len(x))
			for k, e := range x {
				out[k] = walk(e, append(append([]string{}, path...), k))
			}
			return out
		case []any:
			out := make([]any, len(x))
			for i, e := range x {
				out[i] = walk(e, append(append([]string{}, path...), "*"))
			}
			if g.IsSet(path) {
				keys := make([]string, len(out))
				for i, e := range out {
					b, _ := json.Marshal(e)
					keys[i] = string(b)
				}
				sort.Sort(&byKey{keys, out})
			}
			return out
		}
		return v
	}
	b, _ := json.Marshal(walk(v, nil))
	return string(b)
}

type byKey struct {
	k []string
	v []any
}

func (b *byKey) Len() int           { return len(b.k) }
func (b *byKey) Less(i, j int) bool { return b.k[i] < b.k[j] }
func (b *byKey) Swap(i, j int)      { b.k[i], b.k[j] = b.k[j], b.k[i]; b.v[i], b.v[j] = b.v[j], b.v[i] }

// Key returns the canonical key of a state given as JSON text.
func (g *Graph) Key(js string) string { return g.canon(json.RawMessage(js)) }

// NewGraph creates an empty graph.
func NewGraph() *Graph { return &Graph{Out: map[string][]*Edge{}, dedup: map[string]bool{}} }

// AddJSON adds an edge from an EDGE payload {"a":..,"f":..,"t":..}.
func (g *Graph) AddJSON(js string) error {
	var e struct{ A, F, T json.RawMessage }
	if err := json.Unmarshal([]byte(js), &e); err != nil {
		return err
	}
	from, to := g.canon(e.F), g.canon(e.T)
	k := from + "|" + string(e.A)
	if g.dedup[k] {
		return nil
	}
	g.dedup[k] = true
	g.Out[from] = append(g.Out[from], &Edge{A: e.A, From: from, To: to})
	g.Edges++
	return nil
}

// Walks returns action sequences starting at init that together cover every edge reachable from init (or, with
// keep < 1, a random fraction of the self-loop edges plus all others).  Each walk is at most maxLen long.
func (g *Graph) Walks(init string, maxLen int, rng *rand.Rand, keepSelfLoops float64) (walks [][]json.RawMessage, covered int, unreachable int) {
	return g.WalksN(init, maxLen, rng, keepSelfLoops, 0)
}

// WalksN is Walks limited to at most maxWalks walks (0 = until every edge is covered).
func (g *Graph) WalksN(init string, maxLen int, rng *rand.Rand, keepSelfLoops float64, maxWalks int) (walks [][]json.RawMessage, covered int, unreachable int) {
	// BFS distances / parents from init for shortest paths
	type par struct {
		e *Edge
	}
	parent := map[string]*Edge{init: nil}
	order := []string{init}
	for i := 0; i < len(order); i++ {
		for _, e := range g.Out[order[i]] {
			if _, ok := parent[e.To]; !ok {
				parent[e.To] = e
				order = append(order, e.To)
			}
		}
	}
	pathTo := func(s string) []*Edge {
		var p []*Edge
		for s != init {
			e := parent[s]
			p = append(p, e)
			s = e.From
		}
		for i, j := 0, len(p)-1; i < j; i, j = i+1, j-1 {
			p[i], p[j] = p[j], p[i]
		}
		return p
	}
	remaining := 0
	unseen := map[string]int{} // state -> number of unseen outgoing edges
	for s, es := range g.Out {
		if _, ok := parent[s]; !ok {
			unreachable += len(es)
			continue
		}
		for _, e := range es {
			if e.From == e.To && keepSelfLoops < 1 && rng.Float64() >= keepSelfLoops {
				e.seen = true
				continue
			}
			remaining++
			unseen[s]++
		}
	}
	take := func(s string) *Edge {
		es := g.Out[s]
		off := rng.Intn(len(es))
		for i := range es {
			e := es[(i+off)%len(es)]
			if !e.seen {
				return e
			}
		}
		return nil
	}
	for remaining > 0 && (maxWalks == 0 || len(walks) < maxWalks) {
		var w []json.RawMessage
		cur := init
		for len(w) < maxLen {
			if unseen[cur] == 0 {
				// nearest state (BFS over the graph from cur) with unseen outgoing edges, within the remaining budget
				type qe struct {
					s string
					p []*Edge
				}
				visited := map[string]bool{cur: true}
				q := []qe{{cur, nil}}
				var found *qe
				for len(q) > 0 && found == nil {
					x := q[0]
					q = q[1:]
					if len(x.p) >= 4 {
						continue
					}
					for _, e := range g.Out[x.s] {
						if visited[e.To] {
							continue
						}
						visited[e.To] = true
						np := append(append([]*Edge{}, x.p...), e)
						if unseen[e.To] > 0 {
							found = &qe{e.To, np}
							break
						}
						q = append(q, qe{e.To, np})
					}
				}
				if found == nil || len(w)+len(found.p) >= maxLen {
					break
				}
				for _, e := range found.p {
					w = append(w, e.A)
				}
				cur = found.s
				continue
			}
			e := take(cur)
			e.seen = true
			unseen[cur]--
			remaining--
			covered++
			w = append(w, e.A)
			cur = e.To
		}
		if len(w) == 0 {
			// nothing reachable cheaply from init: jump by shortest path to some state with unseen edges
			for s, n := range unseen {
				if n > 0 {
					for _, e := range pathTo(s) {
						w = append(w, e.A)
					}
					cur = s
					for unseen[cur] > 0 && len(w) < maxLen+len(pathTo(s)) {
						e := take(cur)
						e.seen = true
						unseen[cur]--
						remaining--
						covered++
						w = append(w, e.A)
						cur = e.To
					}
					break
				}
			}
		}
		walks = append(walks, w)
	}
	return
}
