package core

import (
	"bytes"
	"encoding/json"
	"fmt"
	"os"
	"path/filepath"
	"runtime"
	"sync"
	"time"

	"github.com/emitter-io/emitter/verif/tlc"
)

// Trace is one recorded behaviour of the real code: a list of ndjson events, the first being a reset.
type Trace struct {
	Events [][]byte
	Label  string
}

// Ev marshals an event.
func Ev(v any) []byte {
	b, err := json.Marshal(v)
	if err != nil {
		panic(err)
	}
	return b
}

// Rejection describes where validation of a trace stopped.
type Rejection struct {
	Trace   *Trace
	Index   int // index into Trace.Events of the first event no spec action explains
	Chunk   []byte
	TLCTail string
}

// ValidateOpts configures ValidateTraces.
type ValidateOpts struct {
	Module    string // trace module, e.g. Trie_Trace
	Cfg       string // cfg text
	ChunkSize int    // max events per TLC run (default 20000)
	DFS       bool
	Parallel  int
	Timeout   time.Duration
	NoCount   bool                 // diagnostic pass: do not count in the evidence
	Tags      func(tag, js string) // other tagged lines printed by the trace spec (e.g. BLAME)
}

// ValidateTraces concatenates traces into chunks, validates every chunk with TLC (in parallel), and returns the
// rejections (at most one per chunk: the rest of a rejected chunk is re-validated trace by trace so that every
// trace gets a verdict).
func (c *Ctx) ValidateTraces(traces []*Trace, o ValidateOpts) []Rejection {
	if o.ChunkSize == 0 {
		o.ChunkSize = 20000
	}
	// debugging aid: VERIF_DUMP=<dir> keeps every trace handed to TLC
	if d := os.Getenv("VERIF_DUMP"); d != "" {
		os.MkdirAll(d, 0o755)
		for _, t := range traces {
			var b []byte
			for _, e := range t.Events {
				b = append(append(b, e...), '\n')
			}
			os.WriteFile(filepath.Join(d, c.ID+"-"+t.Label+".ndjson"), b, 0o644)
		}
	}
	if o.Parallel == 0 {
		o.Parallel = runtime.NumCPU() / 2
		if o.Parallel < 1 {
			o.Parallel = 1
		}
	}
	type chunk struct{ ts []*Trace }
	var chunks []chunk
	cur, n := chunk{}, 0
	for _, t := range traces {
		if n > 0 && n+len(t.Events) > o.ChunkSize {
			chunks = append(chunks, cur)
			cur, n = chunk{}, 0
		}
		cur.ts = append(cur.ts, t)
		n += len(t.Events)
	}
	if n > 0 {
		chunks = append(chunks, cur)
	}
	var mu sync.Mutex
	var rej []Rejection
	var events, validated int64
	sem := make(chan struct{}, o.Parallel)
	var wg sync.WaitGroup
	var validate func(ts []*Trace)
	validate = func(ts []*Trace) {
		for len(ts) > 0 {
			var buf bytes.Buffer
			total := 0
			for _, t := range ts {
				for _, e := range t.Events {
					buf.Write(e)
					buf.WriteByte('\n')
				}
				total += len(t.Events)
			}
			hwm, tailOut := c.validateChunk(buf.Bytes(), total, o)
			if hwm > total {
				mu.Lock()
				events += int64(total)
				validated += int64(len(ts))
				mu.Unlock()
				return
			}
			// locate the trace containing event number hwm (1-based)
			pos := 0
			for i, t := range ts {
				if hwm <= pos+len(t.Events) {
					mu.Lock()
					rej = append(rej, Rejection{Trace: t, Index: hwm - pos - 1, TLCTail: tailOut})
					events += int64(pos)
					validated += int64(i)
					mu.Unlock()
					ts = ts[i+1:]
					break
				}
				pos += len(t.Events)
			}
			mu.Lock()
			stop := len(rej) > 20
			mu.Unlock()
			if stop {
				return
			}
		}
	}
	for _, ch := range chunks {
		wg.Add(1)
		sem <- struct{}{}
		go func(ts []*Trace) {
			defer wg.Done()
			defer func() { <-sem }()
			validate(ts)
		}(ch.ts)
	}
	wg.Wait()
	Logf("validated %d traces (%d events) with %s", len(traces), events, o.Module)
	if !o.NoCount {
		c.Add("trace_events_validated", events)
		c.Add("traces_validated_against_impl", validated)
	}
	return rej
}

// validateChunk returns the high-water mark (1-based index of the first unconsumed event; total+1 = accepted).
func (c *Ctx) validateChunk(data []byte, total int, o ValidateOpts) (int, string) {
	hwm := -1
	to := o.Timeout
	if to == 0 {
		to = 15 * time.Minute
	}
	r, err := tlc.Run(tlc.Opts{SpecDir: SpecDir(), Module: o.Module, Cfg: o.Cfg, Workers: 1, Timeout: to, DFS: o.DFS,
		Files: map[string][]byte{"trace.ndjson": data},
		OnTag: func(tag, js string) {
			if tag == "HWM" {
				var h struct{ Hwm, Len int }
				if json.Unmarshal([]byte(js), &h) == nil {
					hwm = h.Hwm
					if h.Len != total {
						hwm = -2
					}
				}
			} else if o.Tags != nil {
				o.Tags(tag, js)
			}
		}})
	if err != nil {
		Fatalf("trace validation %s: %v", o.Module, err)
	}
	if hwm < 0 || r.TimedOut || (r.ErrText != "" && !bytes.Contains([]byte(r.ErrText), []byte("Postcondition"))) {
		Fatalf("trace validation %s could not decide (hwm=%d): %s\n%s", o.Module, hwm, r.Brief(), tail(r.Out, 3000))
	}
	return hwm, tail(r.Out, 1500)
}

// ReportRejections turns rejections into violations (the caller has already filtered explainable ones).
func (c *Ctx) ReportRejections(rej []Rejection, what string) {
	for _, r := range rej {
		var buf bytes.Buffer
		for i, e := range r.Trace.Events {
			if i == r.Index {
				buf.WriteString(`{"e":"#","note":"next event is the first one the specification cannot explain"}` + "\n")
			}
			buf.Write(e)
			buf.WriteByte('\n')
		}
		c.Violation(fmt.Sprintf("%s: trace %q rejected at event %d: %s", what, r.Trace.Label, r.Index, string(r.Trace.Events[min(r.Index, len(r.Trace.Events)-1)])), buf.Bytes())
	}
}
