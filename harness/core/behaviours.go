package core

import (
	"encoding/json"
	"math/rand"
	"sort"
	"strings"
)

// Behaviours turns the history lines printed by a `Dump` invariant during TLC simulation into the behaviours TLC
// actually walked.  TLC evaluates invariants on EVERY successor of the current state before it picks one, so next to
// each state of a behaviour the output holds its never-taken siblings: a line (a JSON array, given without the
// closing bracket) is kept if it is maximal and not the sibling of an extended line; of the states at the end of a
// behaviour (the last one and its siblings) one is kept.  At most max behaviours are returned (seeded choice).
func Behaviours(lines []string, max int, rng *rand.Rand) [][]json.RawMessage {
	sort.Strings(lines)
	type item struct {
		line     string
		extended bool
	}
	groups := map[string][]item{} // parent prefix -> its children
	var order []string
	for i, l := range lines {
		if i+1 < len(lines) && lines[i+1] == l {
			continue
		}
		ext := i+1 < len(lines) && strings.HasPrefix(lines[i+1], l+",")
		parent := ""
		if k := lastElementStart(l); k > 0 {
			parent = l[:k]
		}
		if _, ok := groups[parent]; !ok {
			order = append(order, parent)
		}
		groups[parent] = append(groups[parent], item{l, ext})
	}
	var keep []string
	for _, p := range order {
		g := groups[p]
		anyExt := false
		for _, it := range g {
			if it.extended {
				anyExt = true
			}
		}
		if anyExt {
			continue // the unextended members are siblings that were not taken; the extended ones are not maximal
		}
		keep = append(keep, g[rng.Intn(len(g))].line)
	}
	rng.Shuffle(len(keep), func(i, j int) { keep[i], keep[j] = keep[j], keep[i] })
	if max > 0 && len(keep) > max {
		keep = keep[:max]
	}
	var out [][]json.RawMessage
	for _, l := range keep {
		var h []json.RawMessage
		if json.Unmarshal([]byte(l+"]"), &h) == nil && len(h) > 0 {
			out = append(out, h)
		}
	}
	return out
}

// lastElementStart returns the index of the comma that separates the last top-level element of the (unclosed) JSON
// array from the ones before it, or 0 if there is only one element.
func lastElementStart(l string) int {
	depth, inStr, esc := 0, false, false
	last := 0
	for i := 0; i < len(l); i++ {
		ch := l[i]
		if inStr {
			if esc {
				esc = false
			} else if ch == '\\' {
				esc = true
			} else if ch == '"' {
				inStr = false
			}
			continue
		}
		switch ch {
		case '"':
			inStr = true
		case '[', '{':
			depth++
		case ']', '}':
			depth--
		case ',':
			if depth == 1 {
				last = i
			}
		}
	}
	return last
}
