// Package core holds what every check shares: run context (tier, seed), evidence writing,
// violation / known-finding reporting, trace validation through TLC and state-graph walking.
package core

import (
	"context"
	"encoding/json"
	"fmt"
	"os"
	"os/exec"
	"path/filepath"
	"regexp"
	"sort"
	"strconv"
	"strings"
	"sync"
	"time"

	"github.com/emitter-io/emitter/verif/tlc"
)

// Root of the verification tree.
var Root = "/verif"

// SpecDir is where the TLA+ modules live.
func SpecDir() string { return filepath.Join(Root, "spec") }

// Exit codes.
const (
	ExitOK        = 0
	ExitViolation = 1
	ExitMachinery = 2
)

// Ctx is the context of one check run.
type Ctx struct {
	ID       string
	Tier     string // quick | thorough
	Seed     int64
	Level    string
	Start    time.Time
	Cov      map[string]any
	Assume   []string
	mu       sync.Mutex
	viol     int
	known    map[string]string // tag -> what fails (met during this run)
	Findings []Finding         // listed findings for this property
	samples  []any
	ReplayIn string // --replay path
}

// Finding is one entry of known_findings.json.
type Finding struct {
	Property  string `json:"property"`
	Tag       string `json:"tag"`
	Status    string `json:"status"` // "known" | "fixed"
	Deviation string `json:"deviation,omitempty"`
	What      string `json:"what_fails"`
	Witness   any    `json:"witness,omitempty"`
	Commit    string `json:"commit,omitempty"`
}

// NewCtx builds the context from the environment.
func NewCtx(id, tier string) *Ctx {
	seed := int64(1)
	if s := os.Getenv("VERIF_SEED"); s != "" {
		if v, err := strconv.ParseInt(s, 10, 64); err == nil {
			seed = v
		}
	}
	c := &Ctx{ID: id, Tier: tier, Seed: seed, Start: time.Now(), Cov: map[string]any{}, known: map[string]string{}}
	c.loadFindings()
	return c
}

func (c *Ctx) loadFindings() {
	b, err := os.ReadFile(filepath.Join(Root, "known_findings.json"))
	if err != nil {
		return
	}
	var all struct {
		Findings []Finding `json:"findings"`
	}
	if err := json.Unmarshal(b, &all); err != nil {
		Fatalf("known_findings.json: %v", err)
	}
	for _, f := range all.Findings {
		if f.Property == c.ID {
			c.Findings = append(c.Findings, f)
		}
	}
}

// KnownTags returns the tags of the listed (not fixed) findings of this property.
func (c *Ctx) KnownTags() map[string]Finding {
	m := map[string]Finding{}
	for _, f := range c.Findings {
		if f.Status != "fixed" {
			m[f.Tag] = f
		}
	}
	return m
}

// Quick reports whether this is the quick tier.
func (c *Ctx) Quick() bool { return c.Tier != "thorough" }

// Logf prints a progress line to stderr.
func Logf(format string, a ...any) {
	fmt.Fprintf(os.Stderr, "[vcheck %6.1fs] "+format+"\n", append([]any{time.Since(procStart).Seconds()}, a...)...)
}

var procStart = time.Now()

// Fatalf reports machinery trouble: exit 2, never a violation.
func Fatalf(format string, a ...any) {
	fmt.Fprintf(os.Stderr, "[vcheck] MACHINERY: "+format+"\n", a...)
	os.Exit(ExitMachinery)
}

// Sample records an example case for the evidence file (the first few are kept).
func (c *Ctx) Sample(v any) {
	c.mu.Lock()
	defer c.mu.Unlock()
	if len(c.samples) < 5 {
		c.samples = append(c.samples, v)
	}
}

// Add adds n to an integer coverage counter.
func (c *Ctx) Add(key string, n int64) {
	c.mu.Lock()
	defer c.mu.Unlock()
	cur, _ := c.Cov[key].(int64)
	c.Cov[key] = cur + n
}

// Set stores a coverage value.
func (c *Ctx) Set(key string, v any) {
	c.mu.Lock()
	defer c.mu.Unlock()
	c.Cov[key] = v
}

// Get reads an integer coverage counter.
func (c *Ctx) Get(key string) int64 {
	c.mu.Lock()
	defer c.mu.Unlock()
	v, _ := c.Cov[key].(int64)
	return v
}

// Violation writes the replay file and prints the VIOLATION line.
func (c *Ctx) Violation(what string, replay []byte) {
	c.mu.Lock()
	defer c.mu.Unlock()
	c.viol++
	if c.viol > 5 {
		return
	}
	dir := filepath.Join(Root, "evidence", "replays")
	os.MkdirAll(dir, 0o755)
	path := filepath.Join(dir, fmt.Sprintf("%s-%s-seed%d-%d.ndjson", c.ID, c.Tier, c.Seed, c.viol))
	hdr, _ := json.Marshal(map[string]any{"e": "violation", "property": c.ID, "what": what})
	os.WriteFile(path, append(append(hdr, '\n'), replay...), 0o644)
	fmt.Printf("VIOLATION property=%s replay=%s\n", c.ID, path)
	if len(what) > 700 {
		what = what[:700] + "..."
	}
	fmt.Fprintf(os.Stderr, "[vcheck] violation: %s\n", what)
}

// Known records that a listed finding was met; unknown tags are violations.
func (c *Ctx) Known(tag string) bool {
	f, ok := c.KnownTags()[tag]
	if !ok {
		return false
	}
	c.mu.Lock()
	c.known[tag] = f.What
	c.mu.Unlock()
	return true
}

// KnownQuiet tells whether a finding with this tag is listed, without recording that it was met.
func (c *Ctx) KnownQuiet(tag string) bool {
	_, ok := c.KnownTags()[tag]
	return ok
}

// Violations returns the number of violations so far.
func (c *Ctx) Violations() int {
	c.mu.Lock()
	defer c.mu.Unlock()
	return c.viol
}

// Finish writes the evidence file, prints KNOWN-FINDING lines, and exits.
func (c *Ctx) Finish() {
	c.mu.Lock()
	tags := make([]string, 0, len(c.known))
	for t := range c.known {
		tags = append(tags, t)
	}
	sort.Strings(tags)
	for _, t := range tags {
		fmt.Printf("KNOWN-FINDING: property=%s %s %s\n", c.ID, t, c.known[t])
	}
	if _, ok := c.Cov["samples"]; !ok {
		if len(c.samples) == 0 {
			c.samples = []any{"(none recorded)"}
		}
		c.Cov["samples"] = c.samples
	}
	c.Cov["known_findings_met"] = tags
	ev := map[string]any{
		"property_id": c.ID,
		"tier":        c.Tier,
		"seed":        c.Seed,
		"level":       c.Level,
		"coverage":    c.Cov,
		"assumptions": c.Assume,
		"wall_s":      time.Since(c.Start).Seconds(),
		"violations":  c.viol,
	}
	if c.Assume == nil {
		ev["assumptions"] = []string{}
	}
	viol := c.viol
	c.mu.Unlock()
	b, _ := json.MarshalIndent(ev, "", " ")
	dir := filepath.Join(Root, "evidence")
	os.MkdirAll(dir, 0o755)
	if c.ReplayIn == "" {
		if err := os.WriteFile(filepath.Join(dir, c.ID+".json"), b, 0o644); err != nil {
			Fatalf("write evidence: %v", err)
		}
	}
	if viol > 0 {
		os.Exit(ExitViolation)
	}
	Logf("%s %s seed=%d OK in %.1fs", c.ID, c.Tier, c.Seed, time.Since(c.Start).Seconds())
	os.Exit(ExitOK)
}

// ModelCheck runs an exhaustive TLC configuration of the intended design and insists that it passes:
// a violated invariant here is a bug in the specification (exit 2), not in emitter.
func (c *Ctx) ModelCheck(module, cfg string, o tlc.Opts) *tlc.Result {
	o.SpecDir, o.Module, o.Cfg = SpecDir(), module, cfg
	if o.Timeout == 0 {
		o.Timeout = 20 * time.Minute
		if !c.Quick() {
			o.Timeout = 60 * time.Minute // thorough configurations are sized for ~10 min on an idle 16-core machine
		}
	}
	r, err := tlc.Run(o)
	if err != nil {
		Fatalf("tlc %s/%s: %v", module, cfg, err)
	}
	name := cfg
	if strings.Contains(cfg, "\n") {
		name = "(generated cfg)"
	}
	Logf("TLC %s %s: %s", module, name, r.Brief())
	if !r.OK() {
		Fatalf("TLC %s %s did not pass: %s\n%s", module, name, r.Brief(), tail(r.Out, 3000))
	}
	c.Add("states", r.Distinct)
	c.Add("transitions", r.Generated)
	c.mu.Lock()
	runs, _ := c.Cov["tlc_runs"].([]any)
	c.Cov["tlc_runs"] = append(runs, map[string]any{"module": module, "cfg": name, "distinct": r.Distinct, "generated": r.Generated,
		"depth": r.Depth, "wall_s": r.Wall.Seconds(), "sim": o.SimNum})
	c.mu.Unlock()
	return r
}

func tail(s string, n int) string {
	if len(s) > n {
		return s[len(s)-n:]
	}
	return s
}

// Tail exposes tail for drivers.
func Tail(s string, n int) string { return tail(s, n) }

// Prove runs tlapm on a module of the spec directory in a scratch copy and records obligations / discharged. A proof
// that does not go through is machinery trouble (exit 2): it is a statement about the specification, not about emitter.
func (c *Ctx) Prove(module string) {
	dir, err := os.MkdirTemp("", "vtlapm-")
	if err != nil {
		Fatalf("tempdir: %v", err)
	}
	defer os.RemoveAll(dir)
	b, err := os.ReadFile(filepath.Join(SpecDir(), module+".tla"))
	if err != nil {
		Fatalf("%s: %v", module, err)
	}
	os.WriteFile(filepath.Join(dir, module+".tla"), b, 0o644)
	ctx, cancel := context.WithTimeout(context.Background(), 5*time.Minute)
	defer cancel()
	cmd := exec.CommandContext(ctx, "tlapm", "--threads", "8", module+".tla")
	cmd.Dir = dir
	out, _ := cmd.CombinedOutput()
	m := regexp.MustCompile(`All (\d+) obligations? proved`).FindStringSubmatch(string(out))
	if m == nil {
		Fatalf("tlapm %s did not prove everything:\n%s", module, tail(string(out), 2000))
	}
	n, _ := strconv.ParseInt(m[1], 10, 64)
	c.Add("obligations", n)
	c.Add("discharged", n)
	c.Set("checker_cmd", "tlapm --threads 8 "+module+".tla")
	Logf("tlapm %s: all %d obligations proved", module, n)
}
