// Package meshsender is a transcription of the sending side of github.com/weaveworks/mesh (gossip.go: gossipSender
// Send / Broadcast / pick; gossip_channel.go: relay, relayBroadcast, GossipUnicast) with the sender goroutine replaced
// by explicit Pick steps, so that a harness decides when queued payloads are coalesced and when they are put on the
// wire.  The payload type's own Merge / Encode are called exactly where mesh calls them.
package meshsender

import (
	"sync"

	"github.com/weaveworks/mesh"
)

// Msg is one protocol message on a link.
type Msg struct {
	Kind string        // "gossip" | "broadcast" | "unicast"
	Src  mesh.PeerName // original source of a broadcast / sender of a unicast
	Buf  []byte
}

// sender is mesh's gossipSender for one (channel, connection).
type sender struct {
	gossip     mesh.GossipData
	broadcasts map[mesh.PeerName]mesh.GossipData
	// Coalesced counts how many times a payload was merged into a non-empty bucket.
	Coalesced int
	// NilBucket counts Broadcast calls that found a nil payload stored in the bucket (mesh would panic there).
	NilBucket int
}

// Net is a set of nodes and FIFO links between them.
type Net struct {
	mu      sync.Mutex
	Nodes   map[mesh.PeerName]*Node
	Down    map[[2]mesh.PeerName]bool
	Unicast func(from, to mesh.PeerName, buf []byte) // unicasts are delivered through this callback
}

// Node is the gossip channel of one router.
type Node struct {
	net     *Net
	Name    mesh.PeerName
	senders map[mesh.PeerName]*sender // per neighbour
	Wire    map[mesh.PeerName][]Msg   // FIFO to each neighbour
	// Unicasts records GossipUnicast calls (peer frames); the harness delivers them.
	Unicasts []Msg
	carry    map[mesh.PeerName]int // coalescing steps counted by senders of connections that have since been broken
}

// NewNet creates an empty network.
func NewNet() *Net {
	return &Net{Nodes: map[mesh.PeerName]*Node{}, Down: map[[2]mesh.PeerName]bool{}}
}

// Add creates a node; every node is a neighbour of every other (full mesh).
func (n *Net) Add(name mesh.PeerName) *Node {
	nd := &Node{net: n, Name: name, senders: map[mesh.PeerName]*sender{}, Wire: map[mesh.PeerName][]Msg{}}
	n.Nodes[name] = nd
	return nd
}

func (nd *Node) neighbours() []mesh.PeerName {
	var out []mesh.PeerName
	for name := range nd.net.Nodes {
		if name != nd.Name && !nd.net.Down[[2]mesh.PeerName{nd.Name, name}] {
			out = append(out, name)
		}
	}
	return out
}

// SetDown breaks (down = true) or re-establishes the connection between a and b. A broken connection loses what was
// queued on it and what was in flight; a new connection starts with each side's complete state queued on it
// (mesh: sendAllGossipDown), which the callers pass as ga / gb (nil = nothing to send).
func (n *Net) SetDown(a, b mesh.PeerName, down bool, ga, gb mesh.GossipData) {
	n.mu.Lock()
	defer n.mu.Unlock()
	n.Down[[2]mesh.PeerName{a, b}], n.Down[[2]mesh.PeerName{b, a}] = down, down
	x, y := n.Nodes[a], n.Nodes[b]
	if down {
		for _, q := range [][2]*Node{{x, y}, {y, x}} {
			if sd := q[0].senders[q[1].Name]; sd != nil {
				if q[0].carry == nil {
					q[0].carry = map[mesh.PeerName]int{}
				}
				q[0].carry[q[1].Name] += sd.Coalesced
			}
		}
		delete(x.senders, b)
		delete(y.senders, a)
		delete(x.Wire, b)
		delete(y.Wire, a)
		return
	}
	if ga != nil {
		x.senderFor(b).send(ga)
	}
	if gb != nil {
		y.senderFor(a).send(gb)
	}
}

// Replace puts a fresh node (a restarted router) in the place of name: every connection to and from it is broken
// first, and stays down until SetDown(.., false, ..) re-establishes it.
func (n *Net) Replace(name mesh.PeerName) *Node {
	for other := range n.Nodes {
		if other != name {
			n.SetDown(name, other, true, nil, nil)
		}
	}
	n.mu.Lock()
	defer n.mu.Unlock()
	old := n.Nodes[name]
	nd := &Node{net: n, Name: name, senders: map[mesh.PeerName]*sender{}, Wire: map[mesh.PeerName][]Msg{}, carry: old.carry}
	n.Nodes[name] = nd
	return nd
}

func (nd *Node) senderFor(to mesh.PeerName) *sender {
	s := nd.senders[to]
	if s == nil {
		s = &sender{broadcasts: map[mesh.PeerName]mesh.GossipData{}}
		nd.senders[to] = s
	}
	return s
}

// send is gossipSender.Send.
func (s *sender) send(data mesh.GossipData) {
	if s.gossip == nil {
		s.gossip = data
	} else {
		s.Coalesced++
		s.gossip = s.gossip.Merge(data)
	}
}

// broadcast is gossipSender.Broadcast.
func (s *sender) broadcast(src mesh.PeerName, data mesh.GossipData) {
	d, found := s.broadcasts[src]
	if !found {
		s.broadcasts[src] = data
	} else if d == nil {
		// an earlier coalescing Merge returned nil and mesh stored that nil in the map: the real library would now call a
		// method on a nil interface (panic in the caller of GossipBroadcast). The transcription records it and carries on.
		s.Coalesced++
		s.NilBucket++
		s.broadcasts[src] = data
	} else {
		s.Coalesced++
		s.broadcasts[src] = d.Merge(data)
	}
}

// GossipUnicast implements mesh.Gossip.
func (nd *Node) GossipUnicast(dst mesh.PeerName, msg []byte) error {
	nd.net.mu.Lock()
	nd.Unicasts = append(nd.Unicasts, Msg{Kind: "unicast", Src: dst, Buf: append([]byte{}, msg...)})
	nd.net.mu.Unlock()
	return nil
}

// TakeUnicasts returns and forgets the unicasts recorded so far.
func (nd *Node) TakeUnicasts() []Msg {
	nd.net.mu.Lock()
	defer nd.net.mu.Unlock()
	u := nd.Unicasts
	nd.Unicasts = nil
	return u
}

// GossipBroadcast implements mesh.Gossip: relayBroadcast(ourself, update). In a full mesh the broadcast tree of a
// source reaches every other node in one hop.
func (nd *Node) GossipBroadcast(update mesh.GossipData) {
	nd.net.mu.Lock()
	defer nd.net.mu.Unlock()
	for _, to := range nd.neighbours() {
		nd.senderFor(to).broadcast(nd.Name, update)
	}
}

// GossipNeighbourSubset implements mesh.Gossip: relay(ourself, update).
func (nd *Node) GossipNeighbourSubset(update mesh.GossipData) { nd.Relay(nd.Name, update) }

// Relay is gossipChannel.relay: queue on the links to the neighbours other than src.
func (nd *Node) Relay(src mesh.PeerName, data mesh.GossipData) {
	nd.net.mu.Lock()
	defer nd.net.mu.Unlock()
	for _, to := range nd.neighbours() {
		if to != src {
			nd.senderFor(to).send(data)
		}
	}
}

// Pending tells what is queued on the link to `to`.
func (nd *Node) Pending(to mesh.PeerName) (gossip bool, broadcasts int) {
	s := nd.senderFor(to)
	return s.gossip != nil, len(s.broadcasts)
}

// NilBuckets returns how many times a nil payload was found stored in a bucket of the link to `to`.
func (nd *Node) NilBuckets(to mesh.PeerName) int { return nd.senderFor(to).NilBucket }

// Coalesced returns how many merges into non-empty buckets happened on the link to `to`.
func (nd *Node) Coalesced(to mesh.PeerName) int { return nd.carry[to] + nd.senderFor(to).Coalesced }

// Pick is gossipSender.pick + deliver for one payload: the gossip bucket first, then the broadcast of src; the
// payload is encoded and put on the wire. It returns the messages put on the wire.
func (nd *Node) Pick(to mesh.PeerName, src mesh.PeerName) []Msg {
	nd.net.mu.Lock()
	defer nd.net.mu.Unlock()
	s := nd.senderFor(to)
	var data mesh.GossipData
	kind := ""
	switch {
	case s.gossip != nil:
		data, kind = s.gossip, "gossip"
		s.gossip = nil
		src = nd.Name
	case len(s.broadcasts) > 0:
		d, ok := s.broadcasts[src]
		if !ok {
			for k, v := range s.broadcasts {
				src, d = k, v
				break
			}
		}
		data, kind = d, "broadcast"
		delete(s.broadcasts, src)
		if data == nil {
			return nil // mesh's deliver() stops at a nil payload
		}
	default:
		return nil
	}
	var out []Msg
	for _, b := range data.Encode() {
		m := Msg{Kind: kind, Src: src, Buf: b}
		nd.Wire[to] = append(nd.Wire[to], m)
		out = append(out, m)
	}
	return out
}

// Pop removes the head of the wire nd -> to.
func (nd *Node) Pop(to mesh.PeerName) (Msg, bool) {
	nd.net.mu.Lock()
	defer nd.net.mu.Unlock()
	w := nd.Wire[to]
	if len(w) == 0 {
		return Msg{}, false
	}
	nd.Wire[to] = w[1:]
	return w[0], true
}

// Deliver is the receiving side (gossipChannel.deliver / deliverBroadcast): hand the head of the wire from -> to to the
// gossiper of `to` and relay what it returns.
func (n *Net) Deliver(from, to mesh.PeerName, g mesh.Gossiper) (Msg, bool, error) {
	m, ok := n.Nodes[from].Pop(to)
	if !ok {
		return m, false, nil
	}
	switch m.Kind {
	case "gossip":
		update, err := g.OnGossip(m.Buf)
		if err != nil || isNil(update) {
			return m, true, err
		}
		n.Nodes[to].Relay(from, update)
	case "broadcast":
		data, err := g.OnGossipBroadcast(m.Src, m.Buf)
		if err != nil || isNil(data) {
			return m, true, err
		}
		// full mesh: the broadcast tree has no further hops below a receiver
	}
	return m, true, nil
}

func isNil(d mesh.GossipData) bool { return d == nil }
