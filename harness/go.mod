module github.com/emitter-io/emitter/verif

go 1.24

toolchain go1.24.0

require github.com/emitter-io/emitter v0.0.0

require (
	github.com/emitter-io/address v1.0.1 // indirect
	github.com/emitter-io/config v1.0.0 // indirect
	github.com/golang/snappy v0.0.4 // indirect
	github.com/kelindar/binary v1.0.19 // indirect
	golang.org/x/crypto v0.33.0 // indirect
	golang.org/x/net v0.35.0 // indirect
	golang.org/x/text v0.22.0 // indirect
)

replace github.com/emitter-io/emitter => /repo
