module github.com/emitter-io/emitter/verif

go 1.24

toolchain go1.24.0

require (
	github.com/emitter-io/emitter v0.0.0
	github.com/kelindar/binary v1.0.19
)

require (
	github.com/cespare/xxhash/v2 v2.3.0 // indirect
	github.com/coocood/freecache v1.2.4 // indirect
	github.com/emitter-io/address v1.0.1 // indirect
	github.com/emitter-io/config v1.0.0 // indirect
	github.com/golang/snappy v0.0.4 // indirect
	github.com/tidwall/btree v1.7.0 // indirect
	github.com/tidwall/buntdb v1.3.2 // indirect
	github.com/tidwall/gjson v1.18.0 // indirect
	github.com/tidwall/grect v0.1.4 // indirect
	github.com/tidwall/match v1.1.1 // indirect
	github.com/tidwall/pretty v1.2.1 // indirect
	github.com/tidwall/rtred v0.1.2 // indirect
	github.com/tidwall/tinyqueue v0.1.1 // indirect
	github.com/weaveworks/mesh v0.0.0-20191105120815-58dbcc3e8e63 // indirect
	golang.org/x/crypto v0.33.0 // indirect
	golang.org/x/net v0.35.0 // indirect
	golang.org/x/sys v0.30.0 // indirect
	golang.org/x/text v0.22.0 // indirect
)

replace github.com/emitter-io/emitter => /repo
