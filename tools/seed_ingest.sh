#!/bin/bash
# seed_ingest.sh <agent-worktree> <seed-name> : copy an agent's seeded defect into /verif/seeded/<name>/ and confirm it
# in a fresh scratch worktree: patch applies, builds, demo fails with it and passes without it, package tests pass.
set -u
WT=$1; NAME=$2
export GOFLAGS=-mod=mod GOPROXY=off
DST=/verif/seeded/$NAME
mkdir -p $DST && cp $WT/_seed/* $DST/ || exit 1
SCR=/tmp/wt/confirm-$NAME
git -C /repo worktree add -q --detach $SCR HEAD || exit 1
trap "git -C /repo worktree remove --force $SCR" EXIT
cd $SCR
DEMO=$(ls $DST/*_test.go | head -1)
PKG=$(python3 -c "import json,re,sys; m=json.load(open('$DST/meta.json')); s=json.dumps(m); r=re.findall(r'internal/[a-z/_]+/[a-z_0-9]+_test\.go', s); print(r[0].rsplit('/',1)[0] if r else '')")
[ -z "$PKG" ] && { echo "cannot find package dir for demo in meta.json"; exit 1; }
cp $DEMO $PKG/
RUN=$(grep -o 'func Test[A-Za-z0-9_]*' $DEMO | head -1 | sed 's/func //')
echo "== demo $RUN in $PKG without patch"
go test -vet=off -count=1 -run "$RUN" ./$PKG/ > /tmp/wt/$NAME.nopatch.log 2>&1; A=$?
git apply $DST/patch.diff || { echo "patch does not apply"; exit 1; }
go build ./... || { echo "build fails"; exit 1; }
echo "== demo with patch"
go test -vet=off -count=1 -run "$RUN" ./$PKG/ > /tmp/wt/$NAME.patch.log 2>&1; B=$?
rm $PKG/$(basename $DEMO)
echo "== existing tests of changed packages with patch"
PKGS=$(git diff --name-only | xargs -n1 dirname | sort -u | sed 's#^#./#')
go test -vet=off -count=1 $PKGS ./internal/broker/ ./internal/service/... 2>&1 | grep -v '^ok\|no test files' | grep -v 'TestJoin\|TestNewClient\|TestStatsd' | head -20
echo "demo without patch exit=$A (want 0), with patch exit=$B (want !=0)"
python3 - <<PY
import json
m=json.load(open('$DST/meta.json'))
m['confirmed']={'demo_without_patch_exit':$A,'demo_with_patch_exit':$B,'confirmed_by':'tools/seed_ingest.sh in a scratch worktree','demo_test':'$RUN','demo_pkg':'$PKG'}
json.dump(m,open('$DST/meta.json','w'),indent=1)
PY
