#!/usr/bin/env python3
"""Generates /verif/MANIFEST.json from the table below (single place to edit)."""
import json, subprocess

def hooks_commits():
    try:
        out = subprocess.check_output(['git', '-C', '/repo', 'log', '--format=%H %s'], text=True)
        return [l.split()[0] for l in out.splitlines() if l.split(' ', 1)[1].startswith('verif-hook:')]
    except Exception:
        return []

CHECKS = {
 "C01": dict(
    level="model_checking", technique="TLA+ spec Trie.tla model-checked with TLC; exported state graph replayed on message.Trie; recorded traces validated by TLC (Trie_Trace)",
    text="TLC checks exhaustively (bounded filters/subscribers) that the code-shaped trie (node map, recursive lookups, share pick, pruning) equals the declarative matching relation of the property; every edge of an exported state graph is then executed on the real message.Trie (both matchers) and the recorded lookups / Count / node count are validated by TLC against the spec.",
    note="Bounds: 2 literals + '+' + '#', share groups, 2-3 subscribers, depth<=2 (quick) / 3 (thorough), |S|<=3. Hash distinctness of the words is checked. Concurrency clause: lock discipline is modelled as atomic operations (every operation holds Trie's RWMutex); concurrent callers are exercised in the thorough tier by linearizability trace validation.",
    ref="4.1, 5/C01"),
 "C04": dict(
    level="model_checking", technique="TLA+ spec Crdt.tla model-checked with TLC (3 replicas, duplication/reordering/relay); TLC-generated behaviours replayed on Volatile/Durable/State; recorded traces validated by TLC (Crdt_Trace)",
    text="TLC checks exhaustively (3 replicas, 2 keys, bounded times/ops/payloads) that every replica's state is the join of the updates it has seen, so equal update sets give equal entries and activeness whatever the order, duplication, grouping (single op, delta, snapshot) or relaying; the join/delta laws are checked over all value pairs. Every edge of a small exported state graph plus simulated long behaviours are executed on five real implementations (Volatile in-process with shared payload objects, Volatile with codec hop, Durable disk+memory, State volatile and durable with Encode/DecodeState per hop) and the values of Get/Has/Range on every replica after every step are validated by TLC.",
    note="Bounds: times 1..3, 2 keys (thorough also 3 subsets), 3 replicas. crdt.Now driven by the model clock. Entry payload bytes are not compared. Durable tombstone expiry (6 h) is outside a behaviour's horizon.",
    ref="4.3, 5/C04"),
 "C02": dict(
    level="model_checking", technique="TLA+ spec Session.tla (one broker, per-connection counters, trie, links) model-checked with TLC; TLC-simulated request sequences replayed on a real broker.Service over in-memory MQTT connections; recorded packets validated by TLC (Session_Trace)",
    text="TLC checks the session design exhaustively for 2 clients over the pub/sub request alphabet (trie == acknowledged subscriptions, deliveries justified, endings leave nothing). TLC-simulated sequences of connect/subscribe/unsubscribe/publish/link requests by 3 clients (colliding, wildcard, repeated filters; me=0; failing requests; both matchers; 3 license versions) are executed on the real broker, and every packet each client received in every step plus the size of the real trie are validated by TLC against the spec.",
    note="Requests are issued one at a time. Keys are all-covering keys of the broker's contract. Step boundaries: PINGREQ/PINGRESP per connection + a sentinel through the presence queue (hook).",
    ref="4.5, 5/C02"),
 "C07": dict(
    level="model_checking", technique="TLA+ spec Session.tla with the History store model, TLC-simulated publish/subscribe sequences replayed on a real broker with the badger store; packets between SUBSCRIBE and SUBACK validated by TLC",
    text="Same machinery as C02 over the retain family: publishes with/without retain, ttl, store permission on nested channels, later subscribes with/without load permission, last in {absent,0,1,2,1000}, from/until windows. TLC validates that the set of messages replayed before each SUBACK equals the newest `last` stored matching messages and that nothing is replayed without load permission / stored without store permission.",
    note="Order inside a replay is C06's subject (compared as a set). All messages are stored 'now'; expiry is not exercised here (C06).",
    ref="4.5, 5/C07"),
 "C08": dict(
    level="model_checking", technique="TLA+ spec Session.tla: End action enabled in every state; TLC-simulated sessions ended by DISCONNECT / abrupt close / cut inside a packet (seeded byte offset) / malformed packet on a real broker; trie size, will and presence departures validated by TLC",
    text="TLC checks NothingLeftBehind exhaustively for 2 clients. Sessions with ordinary, link-created and presence-change subscriptions (incl. colliding filters) and wills (good, read-only, undecryptable key; wildcard or malformed topic; retain) are ended in four ways on the real broker; the trace spec demands that the real trie shrinks to exactly the other connections' entries, watchers get one unsubscribe per subscription, and the will is delivered once iff allowed.",
    note="Cut points: every session that ends with a cut uses a seeded byte offset inside a SUBSCRIBE; in addition a cut sweep repeats 1 (quick) / 12 (thorough) of those sessions per matcher with the cut after EVERY byte of a SUBSCRIBE and of a retained PUBLISH to a subscribed channel.",
    ref="4.5, 5/C08"),
 "C18": dict(
    level="model_checking", technique="TLA+ spec Session.tla presence actions; TLC-simulated histories replayed on a real broker; status replies and change notifications validated by TLC",
    text="Status replies must list exactly the connections (with usernames) holding a matching subscription; watchers must receive exactly one subscribe/unsubscribe notification per transition on the channel or below, none after cancelling. Validated by TLC on every step of TLC-simulated histories executed on the real broker (both matchers).",
    note="Notifications are asynchronous in the broker: a sentinel pushed through the presence queue (hook) delimits steps; order among notifications of one step is free. Cluster presence (survey) is not exercised (single broker).",
    ref="4.5, 5/C18"),
 "C16": dict(
    level="exploration", technique="MQTT 3.1.1 byte layout written as TLA+ operators (Mqtt.tla); TLC enumerates the packet grid with expected bytes; compared with EncodeTo / DecodePacket of the real codec; spec cross-checked against paho",
    text="Exhaustive over a boundary grid (14 packet types, every CONNECT flag combination incl. will QoS, PUBLISH header flags, remaining length at 0/1/127/128/16383/16384/65530/65531/65535, 0..3 tuples, ids 0/1/256/65535): EncodeTo must produce exactly the bytes the specification computes, DecodePacket of those bytes must give the packet's fields (hence the round trip), bodies above the encoder's buffer must be refused with an error.",
    note="The specification's layout is itself validated on every packet by decoding the expected bytes with github.com/eclipse/paho.mqtt.golang/packets (disagreement = exit 2). Strings/payloads are runs of a single byte value.",
    ref="4.8, 5/C16"),
 "C03": dict(
    level="exploration", technique="AuthZ.tla: the property's target rule (Covers) and the code's bit-path arithmetic (CodeCovers) as TLA+ relations; TLC proves all their differences are named deviations and enumerates the decision grid; every tuple decided by the real Service.Authorize under the 3 license versions",
    text="Exhaustive over the grid: every (target, request) pair over {a,b,+} with exact and '#/' forms up to depth 3 (quick) / 4 (thorough) with an otherwise perfect key, plus every combination of decryptable / contract / signature / master id / permission mask / expiry / ban / operation. Real keys are minted with the real SetTarget + cipher of license v1, v2, v3; the real Authorize must give the verdict the property prescribes. TLC also checks that the code-shaped rule differs from the property's rule only on the named deviation (known finding trailing_plus_dead).",
    note="Two literals and '+'; deeper targets and a third literal are not enumerated (the rule is level-wise). Entry points other than Authorize are exercised in C02/C07/C11/C18.",
    ref="4.2, 5/C03"),
 "C11": dict(
    level="exploration", technique="AuthZ.tla KeyGen/CreateKey/ExtendKey as TLA+ functions with containment lemmas checked by TLC; the request grid replayed as emitter/keygen/ requests on a real broker; returned keys decrypted, compared and used",
    text="Exhaustive over parent kinds x type strings x ttl classes x channels. TLC checks the containment lemmas (never master, perms subset of requested and of the parent for extension, only valid masters/extendable keys mint) on the design and emits the prescribed result and the grants of the derived key; the real broker must answer with the same status, the returned key must decrypt to the prescribed fields (permissions, contract, signature, master id, target bytes, expiry) and grant exactly the prescribed operations (Authorize on 20 probes; SUBSCRIBE/PUBLISH entry points for a subset, where extendable keys must be refused).",
    note="Refusal codes are compared as refusals. Expiry tolerance 10 s. The HTTP keygen form is not driven.",
    ref="4.2, 5/C11"),
 "C12": dict(
    level="exploration", technique="AuthZ.tla attacker model (field-level tamper operations under an authenticated / block / stream cipher abstraction) checked by TLC; each operation concretised on real key strings under the 3 license ciphers and decided by the real Service.Authorize",
    text="TLC shows TamperSafe for an authenticated cipher and for the block cipher abstraction, and produces the gains for the stream abstraction. Every model case (3024) is applied as a byte-level operation to a real issued key under license v1 (XTEA), v2 (XSalsa20) and v3 (salted Salsa20), plus seeded single-character substitutions and multi-byte xor masks; a modified key must grant nothing the original did not (30 probes). Gains under v2/v3 that the stream model predicts are the known finding stream_malleable; anything else (any gain under v1, any unpredicted gain) is a violation.",
    note="Bounded attacker: modifications of one issued key, and every byte-range splice between two keys issued by the real keygen from one master key (the result may grant what either key granted); no cryptanalysis; 2^-32 signature/target collisions under XTEA excluded.",
    ref="4.2, 5/C12"),
 "C06": dict(
    level="model_checking", technique="TLA+ spec History.tla: the iterator loop of SSD.lookup (QueryImpl) vs the property's description (QuerySpec) model-checked equal by TLC over all stores x queries; TLC-simulated store sequences replayed on the real SSD and InMemory providers; query results validated by TLC (History_Trace)",
    text="TLC checks exhaustively (stores of up to 3 (quick) / 4 (thorough) messages out of 14 kinds, every query of the grid incl. continuation from every id) that the code-shaped scan returns exactly the most recent `limit` stored, live, same-contract, prefix-matching, in-window messages that fit the reply cap. Simulated store sequences (two contracts with constructed 32-bit prefix collisions, nested channels, same-second bursts, an expired message, near-cap payloads) are executed on the real badger-backed providers and every query result (the grid, plus continuation from every returned id) is validated by TLC against QuerySpec: same set, each once, non-decreasing time, nothing foreign.",
    note="Expiry uses timestamps already in the past; order inside one second free; first filter level literal. The emitter/history/ request path is not driven here (C07 covers replay on subscribe).",
    ref="4.4, 5/C06"),
 "C14": dict(
    level="model_checking", technique="TLA+ spec Ban.tla (two brokers, LWW ban entries, restart, full-state gossip) model-checked with TLC; TLC-generated ban/unban/use/restart/gossip sequences replayed on real brokers; outcomes validated by TLC (Ban_Trace)",
    text="TLC checks that an acknowledged ban is in force until an acknowledged unban, across restart and merge. Every edge of the one-key state graph plus simulated long sequences on two keys are executed on two real brokers: emitter/keyban/ requests with a real master key, uses through SUBSCRIBE/PUBLISH, restart = Service.Close + NewService on the same cluster directory, gossip = Gossip().Encode() into the other broker's OnGossip (which may or may not have looked the key up before). TLC validates that every use is refused iff the model says the key is banned on that broker.",
    note="Strictly increasing wall clock between ban operations. Restart is a clean stop (a SIGKILL variant is not built). Gossip is delivered by the harness as a full-state exchange.",
    ref="4.6, 5/C14"),
 "C10": dict(
    level="model_checking", technique="TLA+ spec WriteQueue.tla (multi-step writers + timer flush over the RWMutex) model-checked with TLC; TLC-simulated schedules forced onto the real listener.Conn through verif.At gates and validated by TLC; plus mutual-exclusion probes and really concurrent stress runs whose socket stream is validated by TLC (WriteQueue_Stress)",
    text="TLC checks exhaustively (2 writers x 2-3 packets + timer) that the locking discipline of Conn.Write/Flush keeps framing, per-writer order, no loss, no duplication for every interleaving and limiter outcome. Simulated schedules are forced step by step onto a real listener.Conn (goroutines parked at gates inside Write/Flush, limiter outcome forced), and after every step the parked position and the bytes on the recording socket must be the model's. Because a forced schedule only exercises interleavings the model allows, each schedule ends with a mutual-exclusion probe (a thread that needs the queue lock must not pass while another holds the flush lock) and the check adds free-running concurrent runs at flush rates 1/60/1000 whose decoded stream must satisfy the stream predicates.",
    note="Socket writes are atomic w.r.t. each other (net.TCPConn; the fake socket implements that). A whole-broker stage runs 6 really concurrent publishers and 3 subscribers, every connection behind a real listener.Conn at the three flush-rate regimes; the subscribers' raw byte streams are split by an own parser and the stream predicates (framing, per-publisher order, no loss, no duplicate) are evaluated by TLC. The websocket transport's own mutex is exercised sequentially in C17 only.",
    ref="4.7, 5/C10"),
 "C17": dict(
    level="model_checking", technique="TLA+ specs Sniffer.tla, WsTransport.tla, WriteQueue.tla (single writer) model-checked with TLC; every edge of their exported state graphs executed on the real adapters over scripted fake sockets; recorded reads/writes validated by TLC",
    text="Exhaustive at small bounds: every chunking of a 5-6 byte position-tagged stream into source reads, caller buffers 1..3(4), 1-3 sniffing sessions of arbitrary peek depth; every fragmentation into <=3 WebSocket messages (text/binary, empty, control in between), both EOF styles, writes of 0..2 bytes; every sequence of 3 writes x limiter outcome x flush timing on the write queue. TLC checks the byte-stream invariant on the models and validates every recorded Read/Write of the real adapters.",
    note="Sources return io.EOF separately from data. MatchHTTP/MatchAny themselves are not driven: the sniffing sessions model what any matcher can do to the reader (read some prefix).",
    ref="4.7, 5/C17"),
 "C19": dict(
    level="model_checking", technique="TLA+ spec PeerQueue.tla model-checked with TLC and every edge of its state graph forced onto the real cluster.Peer through verif.At gates, validated by TLC; Frames.tla contracts (Split, drain loop, id order/uniqueness/decoding, codec round trip) evaluated by TLC on events recorded from the real functions",
    text="(a) model_checking: senders x flusher interleavings of Peer.Send / processSendQueue at gate granularity; every edge executed on the real peer with a recording gossip sender; what reached the transport after each step must be the model's (once, in order). (b)-(d) exploration: all frames of <=3(4) messages with sizes around the bound through the real Frame.Split; the real processSendQueue with 4-11 MiB messages; ids over 4 ssids x 6 times (decode, order, uniqueness incl. concurrent creation); message/frame codecs on boundary classes.",
    note="The 10 MiB bound is exercised with real large messages only in the drain cases; schedules use small messages. Peer activity (30 s) is not advanced.",
    ref="4.7, 4.8, 5/C19"),
 "C15": dict(
    level="fault_enumeration", technique="TLA+ spec Durable.tla (begin / commit / ack / crash / reopen) model-checked with TLC; traces recorded from a real storing child process (storage.SSD) killed with SIGKILL at seeded points or stopped cleanly, and from the fresh process that reopens the directory, validated by TLC (Durable_Trace)",
    text="Chains of 3-4 restart cycles on one directory: a child process stores random messages announcing begin/ack on a pipe and is SIGKILLed right after a seeded acknowledgement, a few hundred microseconds after a seeded begin (inside Store), at a seeded instant, or closed cleanly; a fresh process reopens the store and lists every message. TLC validates acked subset-of recovered subset-of attempted, identical id/channel/payload/ttl, nothing that was recovered once disappears later, and that the store reopens.",
    note="Process kill, not power loss (SyncWrites=false). Crash instants are sampled: 12 kills (quick) / ~200 (thorough). Clean stops include a Close issued while another goroutine is still storing (a Store that returns nil counts as acknowledged).",
    ref="4.4, 5/C15"),
 "C20": dict(
    level="exploration", technique="abstract codec contract Codec.tla (round trip, injectivity, rejection, total-or-error) evaluated by TLC on events recorded from the real license codecs and key ciphers over TLC-enumerated boundary classes",
    text="TLC enumerates boundary classes (key field patterns x permission bytes; key strings of wrong length or with one invalid character at 5 positions; license strings truncated / flipped / re-suffixed / empty / garbage for v1-v3); the real EncryptKey/DecryptKey/Parse/String/Cipher are run on them (20 (quick) / 2000 (thorough) random members per class) and TLC evaluates the contract on every event.",
    note="The XTEA / Salsa20 arithmetic is not specified in TLA+; the specification states the algebraic contract only (thin by design, see DESIGN 5/C20).",
    ref="4.8, 5/C20"),
 "C09": dict(
    level="exploration", technique="Session.tla Hostile / ClusterHostile actions (27 connection-level classes, broken cluster payloads) interleaved with ordinary requests in TLC-simulated sessions; replayed against brokers in a child process under an address-space ceiling and a watchdog; recorded packets validated by TLC (Session_Trace); plus a systematic payload corpus through the cluster entry points",
    text="The model states what a hostile input may do: close the offending connection exactly like any other ending (16 malformed-packet classes), or be answered without changing anything (11 extreme-parameter request classes), or be rejected silently (cluster payloads) - and that every other connection is served exactly as if nothing had happened, now and in all later steps. Behaviours are replayed on real brokers inside a child process (6 GiB address-space ceiling, watchdog); the death or hang of that process, a panic inside a cluster entry point (mesh does not recover) or any deviation in what the canary clients receive is a violation. Every class also runs once in a fixed canary context and a corpus of mutated gossip / frame payloads (truncation at every offset, every byte forced to 0xFF/0x00/0x7F, bad compression, short keys) is fed to OnGossip, OnGossipBroadcast, OnGossipUnicast, DecodeState, DecodeFrame, DecodeMessage.",
    note="Not covered: arbitrary random byte strings (that is fuzzing, not model-based); the enumerated structural classes and systematic single-byte mutations of valid encodings are. Memory proportionality is judged by the address-space ceiling only. The survey (cluster query) reply path is not driven.",
    ref="4.5, 5/C09"),
 "C05": dict(
    level="model_checking", technique="TLA+ spec Gossip.tla (Swarm + mesh sender: buckets, union coalescing, pick, FIFO wires, periodic / new-connection full-state gossip, relay, link down/up, peer garbage collection and return, broker restart under the old name; switch GcAsCode for the listed GC / restart findings) model-checked with TLC; TLC-simulated schedules replayed on real broker.Service + cluster.Swarm objects through a transcribed mesh sender; routing tables, replicas, member lists, wire payloads and real forwarded publishes validated by TLC (Gossip_Trace)",
    text="TLC checks exhaustively (2 brokers / 3 ops, 3 brokers / 2 ops, 2 brokers with a link fault and GC) that in the intended design every broker's routing table equals the set of brokers with a live local subscriber whenever all links are up and nothing is queued or in flight. Simulated schedules (client subscribe/unsubscribe bursts, periodic full-state gossip, per-link pick order, FIFO delivery, relays among 3 brokers, link down, garbage collection of the unreachable peer, link up with the complete-state exchange, replacement of a broker by a new process under the same node name; 4-broker schedules in which one broker holds different coalesced payloads on two links) are executed on real brokers whose swarms send through a transcription of mesh's gossipSender; at every quiescent point the remote entries of every real trie and the activeness of every replica must equal the model's, every payload put on a wire must carry what the model says, and at the end a real publish on every broker for every ssid must be forwarded to and received by exactly the brokers with a live subscriber. A schedule with a GC or restart step that the intended design rejects is validated again against the model of what the code does (GcAsCode); if that explains it, it is the listed finding gc_peer_return / restart_stale_routes (KNOWN-FINDING), otherwise a violation.",
    note="2-3 brokers, one client and two ssids per broker; the mesh router itself (topology, TCP, goroutines, multi-hop broadcast trees) is replaced by the transcription; the clients of a restarted broker do not subscribe again (their keys would carry new connection ids).",
    ref="A.4, 4.6, 5/C05"),
 "C13": dict(
    level="model_checking", technique="Crdt.tla delta laws (TLC) + delta returned by every real Merge validated in the CRDT traces (Crdt_Trace!DeltaOK); Gossip.tla union coalescing + abstract content of every payload put on a wire by the transcribed mesh sender validated by TLC (Gossip_Trace!TrPick); merge algebra proved with TLAPS (CrdtAlgebra)",
    text="First half: TLC checks the delta laws over all value pairs; every Deliver of the CRDT behaviours (C04 machinery, 5 implementations) logs the delta the real Merge returned and TLC demands exactly the times that changed the replica, nil iff nothing changed. Second half: in the gossip schedules (including periodic and new-connection full-state payloads coalesced with queued deltas) every Pick logs what was actually encoded onto the wire and TLC demands that it carries every update queued on that link since the last pick.",
    note="Same bounds as C04 and C05. The object-sharing variants (the same payload object queued on several links) are exercised by Notify's broadcast to 2 neighbours in the 3-broker schedules.",
    ref="4.3, 4.6, 5/C13"),
}

NOT_YET = "check not built yet in this session (planned, see DESIGN.md section 5); not claimed until its machinery exists"
ids = [json.loads(l)['id'] for l in open('/verif/properties.jsonl')]
NA_REASON = {}

m = {
 "version": 1,
 "setup_cmd": "cd /verif/harness && cp /repo/go.sum go.sum && GOFLAGS=-mod=mod GOPROXY=off go build -tags verif -o /dev/null ./cmd/vcheck",
 "hooks": {
   "guard": "verif",
   "enable": "go build -tags verif (the harness module /verif/harness replaces github.com/emitter-io/emitter with /repo and is always built with -tags verif)",
   "baseline_off_cmd": "cd /repo && GOFLAGS=-mod=mod GOPROXY=off go test -vet=off -count=1 -timeout 25m ./...",
   "source_commits": hooks_commits(),
   "add_only": True,
 },
 "engines": [
   {"name": "tlc", "path": "/opt/veriftools/tla/tla2tools.jar", "serves_properties": sorted(CHECKS), "kind_free_text": "explicit-state model checker for the TLA+ specification in /verif/spec; also validates traces recorded from the real code"},
   {"name": "vcheck", "path": "/verif/harness", "serves_properties": sorted(CHECKS), "kind_free_text": "Go harness: runs TLC, replays TLC-generated behaviours on the real emitter packages (built from /repo with -tags verif), records traces, writes evidence"},
 ],
 "checks": [],
 "notes": "All checks go through /verif/check <id> <tier>; exit 2 = machinery trouble (never a verdict). Known findings: /verif/known_findings.json.",
 "not_applicable": [],
}
for i in ids:
    if i in CHECKS:
        c = CHECKS[i]
        m["checks"].append({
          "property_id": i,
          "quick_cmd": f"./check {i} quick",
          "thorough_cmd": f"./check {i} thorough",
          "evidence_file": f"/verif/evidence/{i}.json",
          "replay_cmd_template": f"./check {i} quick --replay {{path}}",
          "engine": "tlc+vcheck",
          "level_claimed": {"category": c["level"], "text": c["text"], "design_ref": c["ref"]},
          "level_note": c["note"],
          "technique": c["technique"],
        })
    else:
        m["not_applicable"].append({"property_id": i, "reason": NA_REASON.get(i, NOT_YET)})
json.dump(m, open('/verif/MANIFEST.json', 'w'), indent=1)
print("claimed:", sorted(CHECKS), "n/a:", len(m["not_applicable"]))
