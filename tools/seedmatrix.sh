#!/bin/bash
# seedmatrix.sh [seed-dir-name ...] : apply every seeded change in /verif/seeded to /repo in turn, run the quick tier of
# the check of its property (C<nn> from the directory name; extra checks from meta.json "also"), undo it, and print
# one line per seed.  /repo must not be used by anything else meanwhile.  Exit 0 iff every seed was caught.
cd "$(dirname "$0")/.."
git -C /repo diff --quiet || { echo "/repo has local changes"; exit 2; }
NAMES=${@:-$(ls seeded)}
miss=0
for n in $NAMES; do
  d=seeded/$n
  p=$d/patch.diff
  [ -f $d/patch-on-gated.diff ] && p=$d/patch-on-gated.diff
  id=${n%%-*}
  if ! git -C /repo apply /verif/$p 2>/tmp/seedmatrix.err; then echo "$n: patch does not apply ($(head -1 /tmp/seedmatrix.err))"; miss=$((miss+1)); continue; fi
  ids="$id $(python3 -c "import json;print(' '.join(json.load(open('$d/meta.json')).get('also',[])))" 2>/dev/null)"
  res=""
  caught=0
  for c in $ids; do
    VERIF_SEED=1 ./check $c quick > /tmp/seedmatrix.$n.$c.out 2>&1; rc=$?
    v=$(grep -c '^VIOLATION' /tmp/seedmatrix.$n.$c.out)
    res="$res $c:exit=$rc,violations=$v"
    [ $rc -eq 1 ] && [ $v -gt 0 ] && caught=1
  done
  git -C /repo checkout -- .
  git -C /repo diff --quiet || { echo "/repo not clean after $n"; exit 2; }
  if [ $caught -eq 1 ]; then echo "$n: CAUGHT $res"; else echo "$n: MISSED $res"; miss=$((miss+1)); fi
done
exit $((miss>0))
