#!/bin/bash
# tryseed.sh <seed-dir-name> <check-id> [tier] : development aid - run one check of the WORKING TREE of /verif against
# a scratch worktree of /repo with the seeded change applied (never touches /repo).  Prints the tail of the output.
n=$1; c=$2; tier=${3:-quick}
ROOT="$(cd "$(dirname "$0")/.." && pwd)"
d=$ROOT/seeded/$n; p=$d/patch.diff; [ -f $d/patch-on-gated.diff ] && p=$d/patch-on-gated.diff
wt=/tmp/smx/try-$n-$$
mkdir -p /tmp/smx
git -C /repo worktree add -q --detach $wt HEAD || exit 2
trap "git -C /repo worktree remove --force $wt" EXIT
git -C $wt apply $p || { echo "patch does not apply"; exit 2; }
(cd $ROOT && VERIF_REPO=$wt VERIF_SEED=${VERIF_SEED:-1} ./check $c $tier) > /tmp/smx/try-$n.$c.out 2>&1; rc=$?
grep -m3 '^VIOLATION\|MACHINERY' /tmp/smx/try-$n.$c.out | cut -c1-300
tail -3 /tmp/smx/try-$n.$c.out | cut -c1-300
echo "exit=$rc"
