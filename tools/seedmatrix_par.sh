#!/bin/bash
# seedmatrix_par.sh [-j N] [seed-dir-name ...] : like seedmatrix.sh, but never touches /repo: every seed gets its own
# scratch worktree of /repo's HEAD (under /tmp/smx) with the patch applied and its own copy of /verif's HEAD (committed files only), and the quick
# tier of its checks runs there (VERIF_REPO).  N seeds run at a time (default 4).  One line per seed; exit 0 iff every
# seed was caught.  The scratch worktrees and copies are removed as each seed finishes.
J=4
if [ "$1" = "-j" ]; then J=$2; shift 2; fi
ROOT="$(cd "$(dirname "$0")/.." && pwd)"
cd "$ROOT"
NAMES=${@:-$(ls seeded)}
mkdir -p /tmp/smx
one() {
  n=$1
  d=$ROOT/seeded/$n
  p=$d/patch.diff
  [ -f $d/patch-on-gated.diff ] && p=$d/patch-on-gated.diff
  id=${n%%-*}
  wt=/tmp/smx/wt-$n; vc=/tmp/smx/verif-$n
  rm -rf $vc; git -C /repo worktree remove --force $wt 2>/dev/null
  git -C /repo worktree add -q --detach $wt HEAD || { echo "$n: worktree failed"; return 1; }
  if ! git -C $wt apply $p 2>/tmp/smx/$n.err; then
    echo "$n: patch does not apply ($(head -1 /tmp/smx/$n.err))"; git -C /repo worktree remove --force $wt; return 1
  fi
  mkdir -p $vc && git -C $ROOT archive HEAD | (cd $vc && tar xf -)
  ids="$id $(python3 -c "import json;print(' '.join(json.load(open('$d/meta.json')).get('also',[])))" 2>/dev/null)"
  res=""; caught=0
  for c in $ids; do
    (cd $vc && VERIF_REPO=$wt VERIF_SEED=${VERIF_SEED:-1} ./check $c quick) > /tmp/smx/$n.$c.out 2>&1; rc=$?
    v=$(grep -c '^VIOLATION' /tmp/smx/$n.$c.out)
    res="$res $c:exit=$rc,violations=$v"
    [ $rc -eq 1 ] && [ $v -gt 0 ] && caught=1
  done
  git -C /repo worktree remove --force $wt; rm -rf $vc
  if [ $caught -eq 1 ]; then echo "$n: CAUGHT $res"; return 0; else echo "$n: MISSED $res"; return 1; fi
}
export -f one; export ROOT
printf '%s\n' $NAMES | xargs -P $J -I{} bash -c 'one {}' | tee /tmp/smx/summary.txt
! grep -q 'MISSED\|does not apply\|failed' /tmp/smx/summary.txt
