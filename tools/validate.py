#!/usr/bin/env python3
"""Validate MANIFEST.json and evidence files against the schemas (run with python3-vt)."""
import json, sys, glob, jsonschema
ok = True
def check(path, schema):
    global ok
    try:
        jsonschema.validate(json.load(open(path)), json.load(open(schema)))
        print("valid:", path)
    except Exception as e:
        ok = False
        print("INVALID:", path, str(e)[:400])
check('/verif/MANIFEST.json', '/root/.vp/MANIFEST.schema.json')
for f in sorted(glob.glob('/verif/evidence/C*.json')):
    check(f, '/root/.vp/EVIDENCE.schema.json')
m = json.load(open('/verif/MANIFEST.json'))
ids = [json.loads(l)['id'] for l in open('/verif/properties.jsonl')]
claimed = [c['property_id'] for c in m['checks']]
na = [c['property_id'] for c in m.get('not_applicable', [])]
for i in ids:
    if (i in claimed) == (i in na):
        ok = False; print("property", i, "must be either claimed or not_applicable")
sys.exit(0 if ok else 1)
