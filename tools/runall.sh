#!/bin/bash
# runall.sh <tier> <seed...> : run every registered check with the given seeds, print one line per run.
TIER=${1:-quick}; shift
SEEDS=${@:-1}
cd "$(dirname "$0")/.."
IDS=$(python3 -c "import json; print(' '.join(c['property_id'] for c in json.load(open('MANIFEST.json'))['checks']))")
for s in $SEEDS; do
  for id in $IDS; do
    t0=$(date +%s)
    VERIF_SEED=$s ./check $id $TIER > /tmp/runall.$id.$s.out 2>&1
    rc=$?
    t1=$(date +%s)
    kn=$(grep -c '^KNOWN-FINDING' /tmp/runall.$id.$s.out)
    vi=$(grep -c '^VIOLATION' /tmp/runall.$id.$s.out)
    echo "$id tier=$TIER seed=$s exit=$rc secs=$((t1-t0)) known=$kn violations=$vi"
    if [ $rc -ne 0 ]; then grep -m3 'violation\|MACHINERY' /tmp/runall.$id.$s.out | cut -c1-300; fi
  done
done
