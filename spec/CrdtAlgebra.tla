----------------------------- MODULE CrdtAlgebra -----------------------------
(***************************************************************************)
(* The merge algebra of the LWW entries (Crdt.tla: JoinV, DeltaV) for ALL  *)
(* natural timestamps, proved with TLAPS.  TLC checks the same laws only   *)
(* over the bounded time range of a configuration (Crdt!JoinLaws,          *)
(* Crdt!DeltaLaws); these proofs remove that bound from the design-level   *)
(* argument for C04 (convergence) and C13 (exactness of the delta).        *)
(***************************************************************************)
EXTENDS Naturals, TLAPS

Max(x, y) == IF x > y THEN x ELSE y
Val       == [a : Nat, d : Nat]
Zero      == [a |-> 0, d |-> 0]
JoinV(v, w)  == [a |-> Max(v.a, w.a), d |-> Max(v.d, w.d)]
DeltaV(l, m) == [a |-> IF l.a < m.a THEN m.a ELSE 0, d |-> IF l.d < m.d THEN m.d ELSE 0]

THEOREM JoinCommutative == \A v, w \in Val : JoinV(v, w) = JoinV(w, v)
  BY DEF JoinV, Max, Val

THEOREM JoinAssociative == \A u, v, w \in Val : JoinV(u, JoinV(v, w)) = JoinV(JoinV(u, v), w)
  BY DEF JoinV, Max, Val

THEOREM JoinIdempotent == \A v \in Val : JoinV(v, v) = v
  BY DEF JoinV, Max, Val

(* relaying the delta instead of the whole payload loses nothing *)
THEOREM DeltaSuffices == \A l, m \in Val : JoinV(l, DeltaV(l, m)) = JoinV(l, m)
  BY DEF JoinV, DeltaV, Max, Val

(* the delta is empty exactly when the merge changed nothing: re-gossip stops once replicas agree *)
THEOREM DeltaEmptyIffNoChange == \A l, m \in Val : (DeltaV(l, m) = Zero) <=> (JoinV(l, m) = l)
  BY DEF JoinV, DeltaV, Max, Val, Zero

(* the delta carries only the times that changed *)
THEOREM DeltaExact == \A l, m \in Val : /\ (DeltaV(l, m).a # 0 <=> JoinV(l, m).a # l.a)
                                        /\ (DeltaV(l, m).d # 0 <=> JoinV(l, m).d # l.d)
  BY DEF JoinV, DeltaV, Max, Val

(* once merged, the same payload yields no delta *)
THEOREM MergeIsFixpoint == \A l, m \in Val : DeltaV(JoinV(l, m), m) = Zero
  BY DEF JoinV, DeltaV, Max, Val, Zero
=============================================================================
