CONSTANTS
  Mode = "emitter"
  Size = "S"
  MaxS = 2
  Export = TRUE
INIT TrieInit
NEXT MCNext
INVARIANTS Refines CountOK PrefixClosed NoOrphans EmptyAgain LookupExact
