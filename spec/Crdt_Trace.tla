----------------------------- MODULE Crdt_Trace -----------------------------
(* Validates traces recorded from the real crdt.Volatile / crdt.Durable / event.State replicas against Crdt.tla.
   Events (obs is observed AFTER the step on EVERY replica through Get / Has / Range):
     {"e":"reset"}
     {"e":"add"|"del","r":..,"k":..,"t":n,"op":n,"obs":OBS}
     {"e":"snap","r":..,"obs":OBS}
     {"e":"deliver","i":n,"r":..,"relay":bool,"delta":{k:{"a":n,"d":n}},"nil":bool,"obs":OBS}
   OBS = {"v":{r:{k:{"a":n,"d":n,"has":bool}}},"all":{r:[keys]},"live":{r:[keys]}} *)
EXTENDS Crdt, TraceLib

VARIABLE l
vars == <<cvars, l>>

ObsOK(o) ==
    \A r \in Replicas :
        /\ \A k \in Keys : /\ o.v[r][k].a   = st'[r][k].a
                           /\ o.v[r][k].d   = st'[r][k].d
                           /\ o.v[r][k].has = IsAdded(st'[r][k])       \* "is this event active"
        /\ ToSet(o.all[r])  = { k \in Keys : st'[r][k] # Zero }         \* Range with tombstones
        /\ ToSet(o.live[r]) = { k \in Keys : IsAdded(st'[r][k]) }       \* Range without tombstones

(* C13 first half: the delta Merge hands back = exactly the times that changed the replica; nil iff nothing changed *)
DeltaOK(ev) ==
    LET d == Delta(st[ev.r], msgs[ev.i]) IN
    /\ \A k \in Keys : ev.delta[k].a = d[k].a /\ ev.delta[k].d = d[k].d
    /\ ev.nil = (d = Empty)

IsEvent(e) == l <= Len(Log) /\ Log[l].e = e /\ l' = l + 1

TrReset   == IsEvent("reset") /\ st' = [r \in Replicas |-> Empty] /\ msgs' = <<>> /\ seen' = [r \in Replicas |-> {}]
TrAdd     == IsEvent("add")  /\ Add(Log[l].r, Log[l].k, Log[l].t, Log[l].op) /\ ObsOK(Log[l].obs)
TrDel     == IsEvent("del")  /\ Del(Log[l].r, Log[l].k, Log[l].t, Log[l].op) /\ ObsOK(Log[l].obs)
TrSnap    == IsEvent("snap") /\ Snapshot(Log[l].r) /\ ObsOK(Log[l].obs)
TrDeliver == IsEvent("deliver") /\ Log[l].i \in 1..Len(msgs)
                /\ Deliver(Log[l].i, Log[l].r, Log[l].relay) /\ DeltaOK(Log[l]) /\ ObsOK(Log[l].obs)

(* {"e":"conc","r":..,"merged":[payload,..],"locals":[{"k":..,"kind":"a"|"d","lo":n,"hi":n},..],"obs":OBS}
   local operations, merges and look-ups ran CONCURRENTLY on replica r (concurrent.go).  Every interleaving of them ends
   in the join of the old state, the merged payloads and what the local operations wrote; a local operation's clock
   reading lies in [lo, hi], so each final time lies between the joins taken with the lower and with the upper bounds. *)
RECURSIVE JoinSeq(_)
JoinSeq(s) == IF s = <<>> THEN Empty
              ELSE Join([k \in Keys |-> [a |-> Head(s)[k].a, d |-> Head(s)[k].d]], JoinSeq(Tail(s)))
Bound(ev, k, kind, fld) == MaxOf({ IF fld = "lo" THEN x.lo ELSE x.hi : x \in { y \in ToSet(ev.locals) : y.k = k /\ y.kind = kind } })
ConcOK(ev, fin) ==
    LET base == Join(st[ev.r], JoinSeq(ev.merged)) IN
    \A k \in Keys :
        /\ Max(base[k].a, Bound(ev, k, "a", "lo")) <= fin[k].a /\ fin[k].a <= Max(base[k].a, Bound(ev, k, "a", "hi"))
        /\ Max(base[k].d, Bound(ev, k, "d", "lo")) <= fin[k].d /\ fin[k].d <= Max(base[k].d, Bound(ev, k, "d", "hi"))
(* C13 under concurrent merges (payloads arriving over several links at once, the same payload possibly twice): every
   time a Merge hands back as new is a time of ITS payload that exceeds what the replica held before; no time is
   handed back as new by two merges; the newest merged time, if it beats the old state and every local write, is
   handed back by one of them (the update that changed the state is relayed onward, once) *)
DeltasOK(ev) ==
    LET n == Len(ev.merged) IN
    /\ Len(ev.deltas) = n
    /\ \A i \in 1..n, k \in Keys :
          /\ ev.deltas[i][k].a \in {0, ev.merged[i][k].a} /\ (ev.deltas[i][k].a # 0 => ev.deltas[i][k].a > st[ev.r][k].a)
          /\ ev.deltas[i][k].d \in {0, ev.merged[i][k].d} /\ (ev.deltas[i][k].d # 0 => ev.deltas[i][k].d > st[ev.r][k].d)
    /\ \A i, j \in 1..n, k \in Keys : i # j =>
          /\ ~(ev.deltas[i][k].a # 0 /\ ev.deltas[i][k].a = ev.deltas[j][k].a)
          /\ ~(ev.deltas[i][k].d # 0 /\ ev.deltas[i][k].d = ev.deltas[j][k].d)
    /\ \A k \in Keys :
          LET ma == JoinSeq(ev.merged)[k].a
              md == JoinSeq(ev.merged)[k].d IN
          /\ (ma > st[ev.r][k].a /\ ma > Bound(ev, k, "a", "hi")) => \E i \in 1..n : ev.deltas[i][k].a = ma
          /\ (md > st[ev.r][k].d /\ md > Bound(ev, k, "d", "hi")) => \E i \in 1..n : ev.deltas[i][k].d = md
TrConc == IsEvent("conc") /\
    LET ev  == Log[l]
        fin == [k \in Keys |-> [a |-> ev.obs.v[ev.r][k].a, d |-> ev.obs.v[ev.r][k].d]]
    IN  /\ ConcOK(ev, fin)
        /\ (Has(ev, "deltas") => DeltasOK(ev))
        /\ st'   = [st EXCEPT ![ev.r] = fin]
        /\ seen' = [seen EXCEPT ![ev.r] = @ \cup Updates(JoinSeq(ev.merged)) \cup Updates(fin)]
        /\ UNCHANGED msgs
        /\ ObsOK(ev.obs)

TraceInit == CrdtInit /\ l = 1 /\ MarkInit
TraceNext == TrReset \/ TrAdd \/ TrDel \/ TrSnap \/ TrDeliver \/ TrConc
MarkC     == Mark(l)
(* the convergence statement itself, evaluated on every state of every validated trace *)
TraceInv  == StateIsJoinOfSeen /\ Converged
=============================================================================
