----------------------------- MODULE Crdt_Trace -----------------------------
(* Validates traces recorded from the real crdt.Volatile / crdt.Durable / event.State replicas against Crdt.tla.
   Events (obs is observed AFTER the step on EVERY replica through Get / Has / Range):
     {"e":"reset"}
     {"e":"add"|"del","r":..,"k":..,"t":n,"op":n,"obs":OBS}
     {"e":"snap","r":..,"obs":OBS}
     {"e":"deliver","i":n,"r":..,"relay":bool,"delta":{k:{"a":n,"d":n}},"nil":bool,"obs":OBS}
   OBS = {"v":{r:{k:{"a":n,"d":n,"has":bool}}},"all":{r:[keys]},"live":{r:[keys]}} *)
EXTENDS Crdt, TraceLib

VARIABLE l
vars == <<cvars, l>>

ObsOK(o) ==
    \A r \in Replicas :
        /\ \A k \in Keys : /\ o.v[r][k].a   = st'[r][k].a
                           /\ o.v[r][k].d   = st'[r][k].d
                           /\ o.v[r][k].has = IsAdded(st'[r][k])       \* "is this event active"
        /\ ToSet(o.all[r])  = { k \in Keys : st'[r][k] # Zero }         \* Range with tombstones
        /\ ToSet(o.live[r]) = { k \in Keys : IsAdded(st'[r][k]) }       \* Range without tombstones

(* C13 first half: the delta Merge hands back = exactly the times that changed the replica; nil iff nothing changed *)
DeltaOK(ev) ==
    LET d == Delta(st[ev.r], msgs[ev.i]) IN
    /\ \A k \in Keys : ev.delta[k].a = d[k].a /\ ev.delta[k].d = d[k].d
    /\ ev.nil = (d = Empty)

IsEvent(e) == l <= Len(Log) /\ Log[l].e = e /\ l' = l + 1

TrReset   == IsEvent("reset") /\ st' = [r \in Replicas |-> Empty] /\ msgs' = <<>> /\ seen' = [r \in Replicas |-> {}]
TrAdd     == IsEvent("add")  /\ Add(Log[l].r, Log[l].k, Log[l].t, Log[l].op) /\ ObsOK(Log[l].obs)
TrDel     == IsEvent("del")  /\ Del(Log[l].r, Log[l].k, Log[l].t, Log[l].op) /\ ObsOK(Log[l].obs)
TrSnap    == IsEvent("snap") /\ Snapshot(Log[l].r) /\ ObsOK(Log[l].obs)
TrDeliver == IsEvent("deliver") /\ Log[l].i \in 1..Len(msgs)
                /\ Deliver(Log[l].i, Log[l].r, Log[l].relay) /\ DeltaOK(Log[l]) /\ ObsOK(Log[l].obs)

TraceInit == CrdtInit /\ l = 1 /\ MarkInit
TraceNext == TrReset \/ TrAdd \/ TrDel \/ TrSnap \/ TrDeliver
MarkC     == Mark(l)
(* the convergence statement itself, evaluated on every state of every validated trace *)
TraceInv  == StateIsJoinOfSeen /\ Converged
=============================================================================
