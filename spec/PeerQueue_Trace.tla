---------------------------- MODULE PeerQueue_Trace ----------------------------
(* {"e":"reset"} {"e":"step","t":thread,"at":gate ("idle"/"end" = returned),"wire":[[[s,i],..],..]}
   wire = every GossipUnicast the fake sender received, each payload decoded with message.DecodeFrame *)
EXTENDS PeerQueue, TraceLib
VARIABLE l
Ev == Log[l]
IsEvent(e) == l <= Len(Log) /\ Log[l].e = e /\ l' = l + 1
TrReset == IsEvent("reset") /\ pc' = [t \in Threads |-> "idle"] /\ cnt' = [t \in Threads |-> 0]
              /\ frame' = <<>> /\ taken' = [f \in Flushers |-> <<>>] /\ wire' = <<>>
TrStep  == IsEvent("step") /\ Step(Ev.t) /\ pc'[Ev.t] = Ev.at /\ wire' = Ev.wire
TraceInit == PQInit /\ l = 1 /\ MarkInit
TraceNext == TrReset \/ TrStep
MarkC == Mark(l)
TraceInv == InOrderOnce /\ NoDuplicates /\ ChunkBound
=============================================================================
