---------------------------- MODULE Session_Trace ----------------------------
(* Validates traces recorded from a real broker.Service (driven over in-memory MQTT connections) against Session.tla.
   Every event carries the request (the arguments of the spec action) and `out': what each client received during
   the step, split into packets written by the handling goroutine (s, ordered) and presence notifications (a).
   `tcount' is the number of entries in the broker's real subscription trie after the step. *)
EXTENDS Session, TraceLib

CONSTANT NB           \* number of brokers (Home <- HomeMap)
HomeMap == StdHome(NB)
VARIABLES l,
          pend      \* [Clients -> sequence of notifications]: what each client is owed from the concurrent phase so far
vars == <<allvars, l, pend>>

PktEq(lg, ex) ==
    /\ lg.t = ex.t
    /\ CASE ex.t \in {"connack", "suback", "err"} -> lg.code = ex.code
         [] ex.t = "pub"    -> lg.ch = ex.ch /\ lg.p = ex.p
         [] ex.t = "replay" -> ToSet(lg.msgs) = ex.msgs /\ Len(lg.msgs) = Cardinality(ex.msgs)
         [] ex.t = "resp"   -> /\ lg.api = ex.api /\ lg.code = ex.code
                               /\ ("name" \in DOMAIN ex) => (lg.name = ex.name /\ lg.ch = ex.ch)
                               /\ ("who" \in DOMAIN ex)  => (ToSet(lg.who) = ex.who /\ Len(lg.who) = Cardinality(ex.who)
                                                             /\ lg.ch = ex.ch /\ lg.ev = ex.ev)
         [] ex.t = "hist"   -> ToSet(lg.msgs) = ex.msgs /\ Len(lg.msgs) = Cardinality(ex.msgs)
         [] ex.t = "pres"   -> lg.ev = ex.ev /\ lg.ch = ex.ch /\ lg.who = ex.who /\ lg.user = ex.user
         [] OTHER           -> TRUE

(* after a surviving hostile request the requester's own replies are free (error or ordinary reply, any number) *)
SyncEq(ls, es)  == \/ Len(ls) = Len(es) /\ \A i \in DOMAIN ls : PktEq(ls[i], es[i])
                   \/ es = <<[t |-> "any"]>> /\ \A i \in DOMAIN ls : ls[i].t \in {"err", "resp", "puback", "suback", "replay", "unsuback", "hist"}
AsyncEq(la, ea) == /\ Len(la) = Cardinality(ea)
                   /\ \A i \in DOMAIN la : \E e \in ea : PktEq(la[i], e)
                   /\ \A e \in ea : \E i \in DOMAIN la : PktEq(la[i], e)

(* what every client received during the step = what the specification prescribes, and the real index holds
   exactly the model's subscriptions *)
(* several brokers (C05 at the level of sessions): at gossip quiescence the remote entries of broker b's real trie are
   exactly the (broker, filter) pairs for which some connection of ANOTHER broker holds the filter - one route however
   many connections hold it, gone with the last of them; presence-change subscriptions are routed like any other *)
RoutesOK(ev) ==
    Has(ev, "routes") =>
        \A b \in Brokers : ToSet(ev.routes[b]) = { <<Home[e[2]], e[1]>> : e \in { x \in trie' : Home[x[2]] # b } }
(* C07 "stored once, under the publisher's channel, with the requested ttl": when the event carries `stored' (what a
   history query over every first level returns on each broker: [channel, payload, ttl]) it is exactly the model's store *)
StoredOK(ev) ==
    Has(ev, "stored") =>
        \A b \in Brokers : /\ ToSet(ev.stored[b]) = { <<store'[b][i].w, store'[b][i].p, store'[b][i].ttl>> : i \in DOMAIN store'[b] }
                           /\ Len(ev.stored[b]) = Len(store'[b])
OutOK(ev) ==
    /\ StoredOK(ev)
    /\ \A c \in Clients : /\ SyncEq(ev.out[c].s, out'[c].s)
                           /\ (out'[c].s = <<[t |-> "any"]>> \/ AsyncEq(ev.out[c].a, out'[c].a))    \* (a hostile requester's own inbox is free)
    /\ ev.tcount = Cardinality(trie')
    /\ RoutesOK(ev)

(* concurrent phase (hammer.go): the event is one client's request served while other clients' requests were being
   served.  What a client holds depends on its own requests only, so the state after all of them is the same in every
   order; of the step's output only the requester's own replies (everything but deliveries) are compared. *)
NotDelivery(p) == p.t \notin {"pub", "replay"}
ConcOK(ev) == SyncEq(ev.acks, SelectSeq(out'[ev.c].s, NotDelivery))
Fin(ev) == IF Has(ev, "conc") THEN ConcOK(ev) ELSE OutOK(ev)

(* C18 under overlapping requests: while requests of different connections are being served concurrently, a watcher
   whose own watch does not change is owed, for every connection x and channel, exactly the notifications x's own
   transitions produce, in x's order ("in the order in which each connection made those transitions"); across
   different connections the arrival order is free.  `pend' accumulates what the specification prescribes, a
   "concdone" event carries what each client's inbox held when the concurrent phase was over. *)
SetAsSeq(S) == IF S = {} THEN <<>> ELSE CHOOSE f \in [1..Cardinality(S) -> S] : \A x \in S : \E i \in 1..Cardinality(S) : f[i] = x
NoPend == [c \in Clients |-> <<>>]
PendNext(ev) == pend' = IF Has(ev, "conc") THEN [w \in Clients |-> pend[w] \o SetAsSeq(out'[w].a)] ELSE pend
About(s, x, ch) == SelectSeq(s, LAMBDA p : p.who = x /\ p.ch = ch)
SameNotifs(g, p) == /\ Len(g) = Len(p)
                    /\ \A i \in DOMAIN g : g[i].ev = p[i].ev /\ g[i].user = p[i].user
NotifOK(g, p) == \A x \in Clients : \A ch \in { q.ch : q \in ToSet(p) } \cup { q.ch : q \in ToSet(g) } :
                    SameNotifs(About(g, x, ch), About(p, x, ch))

IsEvent(e) == l <= Len(Log) /\ Log[l].e = e /\ l' = l + 1
Ev == Log[l]
ReqOf(ev) == [k |-> ev.k, w |-> ev.w, syn |-> ev.syn, me0 |-> ev.me0, ttl |-> ev.ttl]

TrReset   == IsEvent("reset") /\ conn' = [c \in Clients |-> "new"] /\ user' = [c \in Clients |-> ""]
                /\ will' = [c \in Clients |-> NoWill] /\ held' = [c \in Clients |-> {}] /\ trie' = {}
                /\ links' = [c \in Clients |-> {}] /\ store' = [b \in Brokers |-> <<>>] /\ out' = Quiet /\ pend' = NoPend
TrConnect == IsEvent("connect")  /\ Connect(Ev.c, Ev.u, Ev.will) /\ Fin(Ev) /\ PendNext(Ev)
TrSub     == IsEvent("sub")      /\ Subscribe(Ev.c, Ev.k, Ev.w, Ev.syn, Ev.last, Ev.win) /\ Fin(Ev) /\ PendNext(Ev)
TrUnsub   == IsEvent("unsub")    /\ Unsubscribe(Ev.c, Ev.k, Ev.w, Ev.syn) /\ Fin(Ev) /\ PendNext(Ev)
TrPub     == IsEvent("pub")      /\ Publish(Ev.c, ReqOf(Ev), Ev.via, Ev.retain, Ev.qos, Ev.p) /\ Fin(Ev) /\ PendNext(Ev)
TrLink    == IsEvent("link")     /\ Link(Ev.c, Ev.name, Ev.name # "toolong", ReqOf(Ev), Ev.sub, 1) /\ Fin(Ev) /\ PendNext(Ev)
TrPres    == IsEvent("presence") /\ Presence(Ev.c, Ev.k, Ev.w, Ev.syn, Ev.status, Ev.chg, 1) /\ Fin(Ev) /\ PendNext(Ev)
TrRestart == IsEvent("restart")  /\ Restart /\ OutOK(Ev) /\ PendNext(Ev)
TrHistory == IsEvent("history")  /\ HistoryReq(Ev.c, Ev.k, Ev.w, Ev.syn, Ev.last, Ev.win, 1) /\ Fin(Ev) /\ PendNext(Ev)
TrEnd     == IsEvent("end")      /\ End(Ev.c) /\ Fin(Ev) /\ PendNext(Ev)
(* C09: the broker is still there (the event exists), the hostile connection is closed or answered, everybody else is
   served exactly as the model says - in this step and in all later ones *)
TrCluster == IsEvent("cluster")  /\ ~Ev.panic /\ ClusterHostile /\ OutOK(Ev) /\ PendNext(Ev)      \* a panic on the gossip goroutine is a process exit
TrStranger == IsEvent("stranger") /\ Stranger /\ OutOK(Ev) /\ PendNext(Ev)
TrHostile == IsEvent("hostile")  /\ Hostile(Ev.c, Ev.cls, Ev.closed) /\ OutOK(Ev) /\ PendNext(Ev)

TrConcDone == IsEvent("concdone") /\ UNCHANGED allvars /\ pend' = NoPend
                 /\ \A w \in Clients : NotifOK(Ev.got[w], pend[w])

TraceInit == SessionInit /\ l = 1 /\ pend = NoPend /\ MarkInit
(* a "broker-died" event (the process exited, hung or ran out of its memory ceiling) has no action: never explained *)
TraceNext == TrReset \/ TrConnect \/ TrSub \/ TrUnsub \/ TrPub \/ TrLink \/ TrPres \/ TrEnd \/ TrHostile \/ TrCluster \/ TrConcDone \/ TrRestart \/ TrStranger \/ TrHistory
MarkC     == Mark(l)
TraceInv  == TrieIsHeld /\ NothingLeftBehind
=============================================================================
