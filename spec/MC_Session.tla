----------------------------- MODULE MC_Session -----------------------------
(* Exhaustive / generation wrapper for Session.tla.
   Fam selects the request alphabet: "pubsub" (C02), "retain" (C07), "ending" (C08), "presence" (C18), "all". *)
EXTENDS Session, Json

CONSTANTS Fam, MaxOps, MaxStore, Gen, Small,    \* Small = TRUE: reduced alphabets for the exhaustive edge export
          NB                                  \* number of brokers the clients are spread over (Home <- HomeMap)
HomeMap == StdHome(NB)

VARIABLES nops, hist
mvars == <<allvars, nops, hist>>
View  == <<svars, nops>>          \* `out' and `hist' are observations

(* in simulation mode every quantifier draws one random element: a handful of successors per state instead of thousands *)
Pick(S) == IF Gen = "sim" THEN {RandomElement(S)} ELSE S

(* weighted draw in simulation mode: the tuple lists the choices, repeated according to their weight *)
PickW(seq) == IF Gen = "sim" THEN {seq[RandomElement(1..Len(seq))]} ELSE {seq[i] : i \in 1..Len(seq)}
Open == {c \in Clients : conn[c] = "open"}

In(fams) == Fam = "all" \/ Fam \in fams

Words ==
    CASE Fam = "pubsub"   -> IF Small THEN { <<"a", "b">>, <<"b", "a">>, <<"a">> } ELSE { <<"a", "b">>, <<"b", "a">>, <<"a", "a">>, <<"b", "b">>, <<"a">> }
      [] Fam = "retain"   -> IF Small THEN { <<"a">>, <<"a", "b">> } ELSE { <<"a">>, <<"a", "b">>, <<"b">> }
      [] Fam = "ending"   -> IF Small THEN { <<"a", "b">>, <<"b", "a">> } ELSE { <<"a", "b">>, <<"b", "a">>, <<"a">> }
      [] Fam = "hostile"  -> { <<"a">>, <<"a", "b">> }
      [] Fam = "presence" -> IF Small THEN { <<"a">>, <<"a", "b">> } ELSE { <<"a">>, <<"a", "b">>, <<"b">> }
      [] OTHER            -> { <<"a", "b">>, <<"b", "a">>, <<"a">>, <<"b">>, <<"x", "x", "y">>, <<"y">> }
Wild ==
    CASE Small -> IF Fam = "pubsub" THEN { <<"a", PLUS>> } ELSE {}
      [] Fam = "pubsub" -> { <<"a", PLUS>>, <<PLUS, "a">> } \cup (IF Mode = "mqtt" THEN { <<"a", HASH>> } ELSE {})
      [] Fam = "retain" -> { <<"a", PLUS>> }
      [] Fam = "all"    -> { <<"a", PLUS>>, <<PLUS, "b">> } \cup (IF Mode = "mqtt" THEN { <<"a", HASH>>, <<HASH>> } ELSE {})
      [] OTHER          -> {}
Filters == Words \cup Wild

SubKeys  == IF Small THEN (IF Fam = "retain" THEN {"kAll", "kNoSL"} ELSE {"kAll"}) ELSE IF In({"retain"}) /\ Fam # "all" THEN {"kAll", "kNoSL"} ELSE IF Fam = "all" THEN {"kAll", "kNoSL", "kWO", "kBad", "kExt"} ELSE {"kAll", "kWO", "kBad"}
PubKeys  == IF Small THEN (IF Fam = "retain" THEN {"kAll", "kNoSL"} ELSE {"kAll"}) ELSE IF Fam = "retain" THEN {"kAll", "kNoSL"} ELSE IF Fam = "all" THEN {"kAll", "kNoSL", "kRO", "kBad", "kExt"} ELSE {"kAll", "kRO"}
Syns     == IF Small THEN {"ok"} ELSE IF Fam \in {"pubsub", "all"} THEN {"ok", "noslash"} ELSE {"ok"}
SynW     == IF Small THEN <<"ok">> ELSE IF Fam \in {"pubsub", "all"} THEN <<"ok", "ok", "ok", "ok", "ok", "ok", "ok", "noslash">> ELSE <<"ok">>
SetToSeq(S) == CHOOSE f \in [1..Cardinality(S) -> S] : \A x \in S : \E i \in 1..Cardinality(S) : f[i] = x
SubKeyW  == <<"kAll", "kAll", "kAll", "kAll">> \o SetToSeq(SubKeys)
PubKeyW  == <<"kAll", "kAll", "kAll", "kAll">> \o SetToSeq(PubKeys)
Lasts    == IF Small /\ Fam = "retain" THEN {-1, 0, 2} ELSE IF Fam \in {"retain", "all"} THEN {-1, 0, 1, 2, 1000} ELSE {0}
Wins     == IF Small THEN {"none"} ELSE IF Fam \in {"retain", "all"} THEN {"none", "fromPast", "fromFuture", "untilPast", "untilFuture"} ELSE {"none"}
Payloads == IF Small THEN {"m1"} ELSE {"m1", "m2"}
(* ttl: -1 = no ttl option, 0 = an explicit ?ttl=0, 3600 = a positive ttl *)
TTLs     == IF Fam \in {"retain", "all"} THEN {-1, 0, 3600, 7776000} ELSE {-1}      \* 7776000 s = 90 days: longer than the retention period
Rts      == IF Fam \in {"retain", "all"} THEN BOOLEAN ELSE {FALSE}
Users    == [c \in Clients |-> "u-" \o c]

Req(k, w, syn, me0, ttl) == [k |-> k, w |-> w, syn |-> syn, me0 |-> me0, ttl |-> ttl]
Wills == {NoWill}
         \cup (IF Small /\ Fam = "ending"
               THEN { [on |-> TRUE, k |-> k, w |-> <<"a", "b">>, syn |-> "ok", retain |-> FALSE, p |-> "will"] : k \in {"kAll", "kRO"} }
               ELSE IF Fam \in {"ending", "all"}
               THEN { [on |-> TRUE, k |-> k, w |-> w, syn |-> "ok", retain |-> rt, p |-> "will"] :
                          k \in {"kAll", "kRO", "kBad"}, w \in {<<"a">>, <<"a", "b">>}, rt \in BOOLEAN }
                    \cup { [on |-> TRUE, k |-> "kAll", w |-> <<"a", PLUS>>, syn |-> "ok", retain |-> FALSE, p |-> "will"],
                           [on |-> TRUE, k |-> "kAll", w |-> <<"a">>, syn |-> "noslash", retain |-> FALSE, p |-> "will"] }
               ELSE {})

ASSUME PrintT(<<"CFG", ToJson([clients |-> Clients, mode |-> Mode, fam |-> Fam])>>)

Obs == [conn |-> conn, held |-> held, trie |-> trie, links |-> links, store |-> store, will |-> will]
Emit(a) == /\ Gen = "edges" => PrintT(<<"EDGE", ToJson([a |-> a, f |-> Obs,
                 t |-> [conn |-> conn', held |-> held', trie |-> trie', links |-> links', store |-> store', will |-> will']])>>)
           /\ hist' = IF Gen = "sim" THEN Append(hist, a) ELSE hist
           /\ nops' = nops + 1
Dump == Gen # "sim" \/ Len(hist) < 2 \/ PrintT(<<"BEH", ToJson(hist)>>)

MCInit == SessionInit /\ nops = 0 /\ hist = <<>>

MCConnect == \E c \in Pick({x \in Clients : conn[x] = "new"}), w \in Pick(Wills) :
    Connect(c, Users[c], w) /\ Emit([n |-> "connect", c |-> c, u |-> Users[c], will |-> w])

MCSubscribe == \E c \in Pick(Open), k \in PickW(SubKeyW), w \in Pick(Filters), syn \in PickW(SynW), last \in Pick(Lasts), win \in Pick(Wins) :
    /\ (win # "none" => last = 2) /\ (syn # "ok" => k = "kAll" /\ last \in {-1, 0})
    /\ Subscribe(c, k, w, syn, last, win)
    /\ Emit([n |-> "sub", c |-> c, k |-> k, w |-> w, syn |-> syn, last |-> last, win |-> win])

MCUnsubscribe == \E c \in Pick(Open), k \in Pick({"kAll", "kBad"}), w \in Pick(Filters), syn \in PickW(SynW) :
    /\ (syn # "ok" => k = "kAll")
    /\ Unsubscribe(c, k, w, syn)
    /\ Emit([n |-> "unsub", c |-> c, k |-> k, w |-> w, syn |-> syn])

MCPublish == \E c \in Pick(Open), k \in PickW(PubKeyW), w \in Pick(Words \cup (IF Fam \in {"pubsub", "all"} THEN {<<"a", PLUS>>} ELSE {})),
                syn \in PickW(SynW), me0 \in Pick(BOOLEAN), ttl \in Pick(TTLs), rt \in Pick(Rts), qos \in Pick({0, 1}), p \in Pick(Payloads) :
    /\ Fam = "retain" => (me0 = FALSE /\ qos = 1)
    /\ (syn # "ok" \/ IsWild(w)) => (k = "kAll" /\ ~me0 /\ ttl = -1 /\ ~rt)
    /\ (ttl > 0 \/ rt) => Len(store[Home[c]]) < MaxStore
    /\ Publish(c, Req(k, w, syn, me0, ttl), "", rt, qos, p)
    /\ Emit([n |-> "pub", c |-> c, k |-> k, w |-> w, syn |-> syn, me0 |-> me0, ttl |-> ttl, via |-> "", retain |-> rt, qos |-> qos, p |-> p])

MCPublishVia == \E c \in Pick(Open), via \in Pick({"L1", "L2"}), qos \in Pick({0, 1}), p \in Pick(Payloads) :
    /\ In({"pubsub", "ending"})
    /\ Publish(c, Req("", <<>>, "empty", FALSE, -1), via, FALSE, qos, p)
    /\ Emit([n |-> "pub", c |-> c, k |-> "", w |-> <<>>, syn |-> "empty", me0 |-> FALSE, ttl |-> -1, via |-> via, retain |-> FALSE, qos |-> qos, p |-> p])

MCLink == \E c \in Pick(Open), nm \in Pick({"L1", "L2", "toolong"}), k \in Pick({"kAll", "kWO"}), w \in Pick(Words), me0 \in Pick(BOOLEAN), sub \in Pick(BOOLEAN), syn \in PickW(SynW) :
    /\ In({"pubsub", "ending"})
    /\ (syn # "ok" \/ nm = "toolong") => (k = "kAll" /\ ~me0 /\ ~sub)
    /\ Link(c, nm, nm # "toolong", Req(k, w, syn, me0, -1), sub, 1)
    /\ Emit([n |-> "link", c |-> c, name |-> nm, k |-> k, w |-> w, syn |-> syn, me0 |-> me0, ttl |-> -1, sub |-> sub])

MCPresence == \E c \in Pick(Open), k \in Pick({"kAll", "kWO"}), w \in Pick(Words), status \in Pick(BOOLEAN), chg \in Pick({"none", "on", "off"}) :
    /\ In({"presence", "ending", "hostile"})
    /\ (Fam \in {"ending", "hostile"} => chg = "on" /\ ~status /\ k = "kAll")
    /\ Presence(c, k, w, "ok", status, chg, 1)
    /\ Emit([n |-> "presence", c |-> c, k |-> k, w |-> w, syn |-> "ok", status |-> status, chg |-> chg])

MCHistory == \E c \in Pick(Open), k \in PickW(SubKeyW), w \in Pick(Filters), last \in Pick(Lasts), win \in Pick(Wins) :
    /\ Fam \in {"retain", "all"} /\ ~Small
    /\ (win # "none" => last = 2)
    /\ HistoryReq(c, k, w, "ok", last, win, 1)
    /\ Emit([n |-> "history", c |-> c, k |-> k, w |-> w, syn |-> "ok", last |-> last, win |-> win])

MCEnd == \E c \in Pick(Open), how \in Pick({"disconnect", "drop", "cut", "garbage", "panic"}) :
    /\ (Gen = "sim" /\ Fam \notin {"ending", "retain"}) => RandomElement(1..4) = 1      \* endings are rarer in long random sessions
    /\ In({"ending", "presence"}) \/ (Fam \in {"pubsub", "hostile", "retain"} /\ how = "drop")
    /\ End(c) /\ Emit([n |-> "end", c |-> c, how |-> how])

MCRestart == /\ Fam = "retain" /\ ~Small /\ Len(store[HomeMap["c1"]]) > 0
             /\ Restart /\ Emit([n |-> "restart"])

MCHostile == \E c \in Pick(Open), cls \in Pick(HostileClosing \cup HostileSurviving), closed \in BOOLEAN :
    /\ Fam = "hostile"
    /\ (cls \in HostileClosing => closed)
    /\ (Gen = "sim" => (closed <=> cls \in HostileClosing))      \* the generator does not know; the trace carries what happened
    /\ Hostile(c, cls, closed) /\ Emit([n |-> "hostile", c |-> c, cls |-> cls])

MCStranger == \E cls \in Pick({"nothing", "ping", "disconnect", "cut-connect", "garbage", "sub-first", "pub-first", "will-deep-24", "will-deep-40", "will-long"}) :
    /\ Fam = "hostile"
    /\ Stranger /\ Emit([n |-> "stranger", cls |-> cls])

MCCluster == \E fn \in Pick({"OnGossip", "OnGossipBroadcast", "OnGossipUnicast", "DecodeState", "DecodeFrame", "DecodeMessage"}), i \in Pick(0..199) :
    /\ Fam = "hostile" /\ (Gen # "sim" => i = 0)
    /\ ClusterHostile /\ Emit([n |-> "cluster", fn |-> fn, idx |-> i])

MCNext == /\ nops < MaxOps
          /\ (MCConnect \/ MCSubscribe \/ MCUnsubscribe \/ MCPublish \/ MCPublishVia \/ MCLink \/ MCPresence \/ MCHistory \/ MCEnd \/ MCRestart \/ MCHostile \/ MCStranger \/ MCCluster)
=============================================================================
