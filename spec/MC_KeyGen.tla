----------------------------- MODULE MC_KeyGen -----------------------------
(* C11 grid: every parent kind x requested type x ttl x channel, with the result the design prescribes. *)
EXTENDS AuthZ, Json, TLC
CONSTANT Tier

Letters == {"r", "w", "s", "l", "p", "e"}
Types   == IF Tier = "quick"
           THEN { {}, {"r"}, {"w"}, {"r", "w"}, {"r", "w", "s", "l", "p"}, {"e"}, {"r", "e"}, {"r", "w", "e"}, {"r", "z"}, {"x", "r"}, Letters }
           ELSE SUBSET Letters \cup { {"r", "z"}, {"x", "r"}, {"m", "r"} }
TTLs    == {"zero", "future", "past", "farpast"}
ExtMasks == { {"e"}, {"e", "r"}, {"e", "r", "w"}, {"e", "r", "w", "s", "l", "p"} }
Parents ==
    { [kind |-> k, perms |-> {"m"}, target |-> Chan(<<>>, TRUE), expired |-> x] :
         k \in {"master", "master-foreign", "master-badsig"}, x \in BOOLEAN }
    \cup { [kind |-> "channel", perms |-> ps, target |-> t, expired |-> x] :
         ps \in ExtMasks \cup { {"r", "w"} }, t \in { Chan(<<"a">>, TRUE), Chan(<<"a", "b">>, FALSE) }, x \in BOOLEAN }
    \cup { [kind |-> "garbage", perms |-> {}, target |-> Chan(<<>>, TRUE), expired |-> FALSE] }
Reqs == { [type |-> ty, ttl |-> tl, ch |-> ch, chOK |-> ok, long |-> FALSE] :
            ty \in Types, tl \in TTLs,
            ch \in { Chan(<<"a", "b">>, FALSE), Chan(<<"a", "b">>, TRUE), Chan(<<"a", PLUS>>, FALSE), Chan(<<"b">>, FALSE) },
            ok \in BOOLEAN }
        \cup { [type |-> {"r"}, ttl |-> "zero", ch |-> Chan(<<"a">>, FALSE), chOK |-> TRUE, long |-> TRUE] }
ReqsQ == { r \in Reqs : (~r.chOK => r.ttl = "zero" /\ r.type = {"r", "w"}) /\ (r.ttl \in {"past", "farpast"} => r.type \in {{"r", "w"}, {"r", "w", "e"}}) }

(* what the derived key may then do at the broker: Authorize on a probe set, and the entry points (an extendable key
   cannot itself subscribe or publish) *)
Derived(res) == [decrypts |-> TRUE, contract |-> "own", sigOK |-> TRUE, masterOK |-> TRUE, perms |-> res.perms,
                 expiry |-> res.expiry, banned |-> FALSE, target |-> res.target]
ProbeChans(res) == { Chan(res.target.w, FALSE), Chan(Append(res.target.w, "b"), FALSE), Chan(<<"b">>, FALSE), Chan(<<"a", "b">>, FALSE) }
ProbeOps == {"subscribe", "publish", "history", "presence", "extend"}
Probes(res, cover(_, _)) ==
    IF res.status # 200 THEN {}
    ELSE { [req |-> c, op |-> o, ok |-> Authorize(Derived(res), c, o, cover),
            entry |-> Authorize(Derived(res), c, o, cover) /\ "e" \notin res.perms] : c \in ProbeChans(res), o \in ProbeOps }

Pairs == { <<p, r>> \in Parents \X ReqsQ : r.long => p.kind = "master" /\ ~p.expired }
ASSUME \A p \in Parents, r \in ReqsQ : Contained(p, r, KeyGen(p, r, Covers))
ASSUME \A pr \in Pairs : LET p == pr[1] r == pr[2] IN
    PrintT(<<"KG", ToJson([parent |-> p, req |-> r, want |-> KeyGen(p, r, Covers), code |-> KeyGen(p, r, CodeCovers),
                           probes |-> Probes(KeyGen(p, r, Covers), Covers), probesCode |-> Probes(KeyGen(p, r, Covers), CodeCovers)])>>)
ASSUME PrintT(<<"COUNT", ToJson([n |-> Cardinality(Pairs)])>>)

VARIABLE x
Init == x = 0
Next == UNCHANGED x
=============================================================================
