----------------------------- MODULE MC_History -----------------------------
EXTENDS History, Json, TLC
CONSTANTS MaxMsgs, Gen
VARIABLE hist
mvars == <<hvars, hist>>

Kinds == { [c |-> "C1", w |-> w, t |-> t, live |-> TRUE, big |-> FALSE] : w \in { <<"a">>, <<"a", "b">>, <<"a", "c">>, <<"b">> }, t \in 1..2 }
         \cup { [c |-> "C2", w |-> <<"b">>, t |-> t, live |-> TRUE, big |-> FALSE] : t \in 1..2 }      \* collides with C1 / a
         \cup { [c |-> "C2", w |-> <<"a", "b">>, t |-> 2, live |-> TRUE, big |-> FALSE] }              \* same channel, other contract
         \cup { [c |-> "C1", w |-> <<"a", "b">>, t |-> 2, live |-> FALSE, big |-> FALSE] }             \* expired
         \cup { [c |-> "C1", w |-> <<"a", "b">>, t |-> t, live |-> TRUE, big |-> TRUE] : t \in 1..2 }  \* near the reply cap

Filters == { <<"a">>, <<"a", "b">>, <<"a", PLUS>>, <<"b">>, <<"a", "b", "c">> }
Windows == { <<0, 9>>, <<2, 2>>, <<1, 1>>, <<2, 9>>, <<0, 1>> }
Queries == { [c |-> c, f |-> f, from |-> w[1], until |-> w[2], limit |-> l, after |-> a] :
               c \in {"C1", "C2"}, f \in Filters, w \in Windows, l \in {0, 1, 2, 100}, a \in 0..nseq }

(* design level: the iterator loop returns exactly what the property describes, for every query in every store *)
ImplIsSpec == \A q \in Queries : ValidQuery(q) => QueryImpl(q) = QuerySpec(q)

Pick(S) == IF Gen = "sim" THEN {RandomElement(S)} ELSE S
MCStore == \E k \in Kinds :
    /\ nseq < MaxMsgs
    /\ StoreMsg(k.c, k.w, k.t, k.live, k.big)
    /\ hist' = IF Gen = "sim" THEN Append(hist, [n |-> "store", c |-> k.c, w |-> k.w, t |-> k.t, live |-> k.live, big |-> k.big]) ELSE hist
MCInit == HistInit /\ hist = <<>>
MCNext == MCStore
Dump == Gen # "sim" \/ Len(hist) < 2 \/ PrintT(<<"BEH", ToJson(hist)>>)
ASSUME PrintT(<<"QGRID", ToJson([filters |-> Filters, windows |-> Windows, limits |-> {0, 1, 2, 100}])>>)
=============================================================================
