--------------------------- MODULE WriteQueue_Stress ---------------------------
(* Free-running (really concurrent) writers and flushers on a real listener.Conn / websocket transport: the byte
   stream that reached the socket, decoded into packets, must be one the write-queue design can produce:
   whole packets only, every writer's packets 1..n in order, each exactly once.
   {"e":"stream","writers":[..],"n":packets per writer,"stream":[[w,i],..]}   (a torn packet decodes to [w,-1]) *)
EXTENDS TraceLib, FiniteSets
VARIABLE l
Ev == Log[l]

OfWriter(s, w) == SelectSeq(s, LAMBDA p : p[1] = w)
StreamOK(ev) ==
    /\ \A k \in DOMAIN ev.stream : ev.stream[k][2] >= 1                                   \* framing: no torn packet
    /\ \A j \in DOMAIN ev.writers :
         LET s == OfWriter(ev.stream, ev.writers[j]) IN
         /\ Len(s) = ev.n                                                                  \* nothing lost, nothing duplicated
         /\ \A i \in 1..Len(s) : s[i][2] = i                                               \* per-writer order

TrStream  == l <= Len(Log) /\ Ev.e = "stream" /\ StreamOK(Ev) /\ l' = l + 1
TraceInit == l = 1 /\ MarkInit
TraceNext == TrStream
MarkC     == Mark(l)
=============================================================================
