------------------------------- MODULE MC_Codec -------------------------------
(* Enumerates the boundary classes of C20: key field patterns, malformed key strings, malformed license strings. *)
EXTENDS Naturals, Sequences, FiniteSets, Json, TLC
(* a 24-byte key = salt(2) master(2) contract(4) signature(4) path(3) perms(1) target(4) expiry(4): each field all-zero,
   all-one, or a running pattern *)
Fill == {"zero", "ones", "count"}
KeyClasses == { [salt |-> s, body |-> b, perms |-> p] : s \in Fill, b \in Fill, p \in {0, 1, 2, 4, 8, 16, 32, 64, 128, 255} }
(* malformed key strings: wrong length, or one invalid character at some position *)
BadLens  == {0, 1, 31, 33, 64}
(* every byte value that is not one of the 64 URL-safe base64 characters *)
Valid == (65..90) \cup (97..122) \cup (48..57) \cup {45, 95}
BadChars == (0..255) \ Valid
Positions == {0, 1, 15, 30, 31}
BadKeys == { [kind |-> "len", n |-> n] : n \in BadLens } \cup { [kind |-> "char", ch |-> c, pos |-> p] : c \in BadChars, p \in Positions }
(* malformed license strings, per version suffix *)
LicMut == { [ver |-> v, how |-> h, n |-> n] : v \in 1..3, h \in {"truncate", "flip", "suffix", "empty", "garbage"}, n \in {0, 1, 4, 8, 12, 20, 30} }
ASSUME PrintT(<<"GRID", ToJson([keys |-> KeyClasses, badkeys |-> BadKeys, lic |-> LicMut])>>)
VARIABLE x
Init == x = 0
Next == UNCHANGED x
=============================================================================
