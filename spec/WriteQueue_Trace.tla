--------------------------- MODULE WriteQueue_Trace ---------------------------
(* Validates schedules forced onto the real listener.Conn through the verif.At gates.
   {"e":"reset"}  {"e":"step","t":thread,"lim":bool,"at":gate reached ("idle"/"end" = the call returned),"sock":[[[w,i],..],..]}
   sock = every Write call the fake socket has received so far, decoded into packets (a torn packet decodes to [w,-1]). *)
EXTENDS WriteQueue, TraceLib
VARIABLE l
vars == <<wvars, l>>
Ev == Log[l]
IsEvent(e) == l <= Len(Log) /\ Log[l].e = e /\ l' = l + 1

TrReset == IsEvent("reset") /\ pc' = [t \in Threads |-> "idle"] /\ idx' = [t \in Threads |-> 0]
              /\ queue' = <<>> /\ sock' = <<>> /\ lock' = ""
TrStep  == IsEvent("step") /\ Step(Ev.t, Ev.lim)
              /\ pc'[Ev.t] = Ev.at             \* the thread parked where the model says (or returned)
              /\ sock' = Ev.sock               \* the byte stream on the socket is the model's: framing, order, no loss, no duplication

TraceInit == WQInit /\ l = 1 /\ MarkInit
(* an "exclusion-broken" event (a thread passed the queue lock while another held the flush lock) has no action: it is
   never explained *)
TraceNext == TrReset \/ TrStep
MarkC     == Mark(l)
TraceInv  == PerWriterOrder /\ NoDuplicates /\ NothingLost
=============================================================================
