------------------------------- MODULE MC_Ban -------------------------------
EXTENDS Ban, Json, TLC
CONSTANTS MaxOps, Gen
VARIABLES nops, hist
mvars == <<bvars, nops, hist>>
View == <<ban, nops>>

(* the clock only orders writes: normalise it out of the exported state *)
Rank(b) == [k \in BanKeys |-> [banned |-> IsBanned(ban[b][k]), touched |-> ban[b][k] # Zero]]
Obs  == [ban |-> ban, clock |-> clock]
Emit(a) == /\ Gen = "edges" => PrintT(<<"EDGE", ToJson([a |-> a, f |-> Obs, t |-> [ban |-> ban', clock |-> clock']])>>)
           /\ hist' = IF Gen = "sim" THEN Append(hist, a) ELSE hist
           /\ nops' = nops + 1
Dump == Gen # "sim" \/ Len(hist) < 2 \/ PrintT(<<"BEH", ToJson(hist)>>)

MCInit == BanInit /\ nops = 0 /\ hist = <<>>
MCNext ==
    /\ nops < MaxOps
    /\ \/ \E b \in Brokers, k \in BanKeys : DoBan(b, k)   /\ Emit([n |-> "ban", b |-> b, k |-> k])
       \/ \E b \in Brokers, k \in BanKeys : DoUnban(b, k) /\ Emit([n |-> "unban", b |-> b, k |-> k])
       \/ \E b \in Brokers, k \in BanKeys, op \in {"sub", "pub"} : Use(b, k) /\ Emit([n |-> "use", b |-> b, k |-> k, op |-> op])
       \/ \E b \in Brokers : Restart(b) /\ Emit([n |-> "restart", b |-> b])
       \/ \E b1, b2 \in Brokers : Gossip(b1, b2) /\ Emit([n |-> "gossip", from |-> b1, to |-> b2])
=============================================================================
