--------------------------- MODULE History_Trace ---------------------------
(* Validates store / query traces recorded from the real storage providers (badger-backed SSD and InMemory).
     {"e":"reset"}
     {"e":"store","c":..,"w":[..],"t":n,"live":bool,"big":bool}          (seq = position among the stores of the trace)
     {"e":"query","c":..,"f":[..],"from":n,"until":n,"limit":n,"after":n,"res":[seq,..],"unknown":n}
   res = the sequence numbers of the returned messages in the order returned; unknown = returned ids that were never stored. *)
EXTENDS History, TraceLib

VARIABLE l
vars == <<hvars, l>>
Ev == Log[l]
IsEvent(e) == l <= Len(Log) /\ Log[l].e = e /\ l' = l + 1

TimeOf(s) == (CHOOSE m \in store : m.seq = s).t

ResultOK(ev) ==
    LET q == [c |-> ev.c, f |-> ev.f, from |-> ev.from, until |-> ev.until, limit |-> ev.limit, after |-> ev.after] IN
    /\ ValidQuery(q)                                                    \* the harness only continues from returned ids
    /\ ev.unknown = 0                                                   \* no message that was never stored
    /\ ToSet(ev.res) = QuerySpec(q)                                     \* exactly the most recent `limit' eligible ones
    /\ Len(ev.res) = Cardinality(QuerySpec(q))                          \* each once
    /\ \A i \in 1..(Len(ev.res) - 1) : TimeOf(ev.res[i]) <= TimeOf(ev.res[i + 1])   \* non-decreasing time

TrReset == IsEvent("reset") /\ store' = {} /\ nseq' = 0
TrStore == IsEvent("store") /\ StoreMsg(Ev.c, Ev.w, Ev.t, Ev.live, Ev.big)
TrQuery == IsEvent("query") /\ ResultOK(Ev) /\ UNCHANGED hvars

TraceInit == HistInit /\ l = 1 /\ MarkInit
TraceNext == TrReset \/ TrStore \/ TrQuery
MarkC     == Mark(l)
=============================================================================
