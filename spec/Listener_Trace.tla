---------------------------- MODULE Listener_Trace ----------------------------
(***************************************************************************)
(* The protocol-multiplexing listener as a whole (network/listener:        *)
(* Listener.Match / Serve / serve, the real matchers MatchHTTP, MatchPrefix,*)
(* MatchAny on top of the sniffing connection): a connection is handed to  *)
(* the first registered matcher set one of whose matchers accepts the head *)
(* of the client's stream, and whoever accepts it there reads exactly the  *)
(* client's bytes, from the first one on (C17); a connection no set        *)
(* accepts is closed.                                                      *)
(*   {"e":"conn","sets":[[matcher,..],..],"stream":[bytes],"chunks":[n,..],*)
(*    "matched":index or 0,"got":[bytes]}                                  *)
(*   matcher = {"kind":"any"} | {"kind":"prefix","strs":[[bytes],..]}      *)
(*   (MatchHTTP is a prefix matcher over the HTTP method names: the        *)
(*   harness passes "kind":"http" and the specification supplies the names)*)
(***************************************************************************)
EXTENDS Naturals, Sequences, SequencesExt, TraceLib

HttpMethods == { <<79,80,84,73,79,78,83>>, <<71,69,84>>, <<72,69,65,68>>, <<80,79,83,84>>, <<80,65,84,67,72>>,
                 <<80,85,84>>, <<68,69,76,69,84,69>>, <<84,82,65,67,69>>, <<67,79,78,78,69,67,84>> }

Accepts(m, stream) ==
    CASE m.kind = "any"    -> TRUE
      [] m.kind = "http"   -> \E p \in HttpMethods : IsPrefix(p, stream)
      [] m.kind = "prefix" -> \E i \in DOMAIN m.strs : IsPrefix(m.strs[i], stream)
      [] OTHER             -> FALSE
SetAccepts(set, stream) == \E i \in DOMAIN set : Accepts(set[i], stream)
Expected(sets, stream) == IF \E i \in DOMAIN sets : SetAccepts(sets[i], stream)
                          THEN CHOOSE i \in DOMAIN sets : SetAccepts(sets[i], stream) /\ \A j \in 1..(i - 1) : ~SetAccepts(sets[j], stream)
                          ELSE 0

ConnOK(ev) == /\ ev.matched = Expected(ev.sets, ev.stream)
              /\ ev.got = (IF ev.matched = 0 THEN <<>> ELSE ev.stream)

VARIABLE l
Ev == Log[l]
TraceInit == l = 1 /\ MarkInit
TraceNext == l <= Len(Log) /\ Log[l].e = "conn" /\ ConnOK(Ev) /\ l' = l + 1
MarkC == Mark(l)
=============================================================================
