-------------------------------- MODULE Frames --------------------------------
(***************************************************************************)
(* Functional contracts of message ids, frames and codecs (message/id.go,  *)
(* message.go, codec.go) used by property C19, evaluated by TLC on events  *)
(* recorded from the real functions.                                       *)
(*   Split(sizes, bound): the code's loop, and what the property asks      *)
(*   Id: decode gives back ssid and second; later ids sort first; unique   *)
(*   Codec: an injective partial function: Decode(Encode(x)) = x           *)
(***************************************************************************)
EXTENDS Naturals, Sequences, FiniteSets, TraceLib

(* Frame.Split as written: stop at the first message that reaches the bound *)
RECURSIVE SplitAt(_, _, _, _)
SplitAt(sizes, bound, i, sum) ==
    IF i > Len(sizes) THEN Len(sizes)
    ELSE IF sum + sizes[i] >= bound THEN i - 1
    ELSE SplitAt(sizes, bound, i + 1, sum + sizes[i])
SplitHead(sizes, bound) == SplitAt(sizes, bound, 1, 0)

Sum(s) == IF s = <<>> THEN 0 ELSE LET F[i \in 0..Len(s)] == IF i = 0 THEN 0 ELSE F[i - 1] + s[i] IN F[Len(s)]

(* C19 on one split: nothing dropped, duplicated or reordered (the harness compares the messages themselves: `same'),
   the head respects the bound, and the split makes progress whenever the first message fits *)
SplitOK(ev) ==
    /\ ev.head + ev.tail = Len(ev.sizes) /\ ev.same
    /\ ev.head = SplitHead(ev.sizes, ev.bound)
    /\ ev.head > 0 => Sum(SubSeq(ev.sizes, 1, ev.head)) < ev.bound
    /\ (Len(ev.sizes) > 0 /\ ev.sizes[1] < ev.bound) => ev.head > 0

(* the caller's loop (Peer.processSendQueue): every message of the frame reaches the transport, in order, once;
   a chunk exceeds the bound only if it is a single message that is itself too large *)
DrainOK(ev) ==
    /\ Sum(ev.chunks) = Len(ev.sizes) /\ ev.same
    /\ \A i \in DOMAIN ev.chunks : ev.chunks[i] >= 1
    /\ \A i \in DOMAIN ev.chunks :
          LET from == Sum(SubSeq(ev.chunks, 1, i - 1)) + 1 IN
          ev.chunks[i] > 1 => Sum(SubSeq(ev.sizes, from, from + ev.chunks[i] - 1)) < ev.bound

IdOK(ev)      == ev.decSsid = ev.ssid /\ ev.decT = ev.t
IdOrderOK(ev) == ev.later => ev.cmp < 0          \* created later for the same channel sorts before
IdUniqueOK(ev) == ev.distinct = ev.n
CodecOK(ev)   == ~ev.err /\ ev.equal
(* a transport that refuses a unicast (mesh returns an error when the peer is unreachable for a moment): every message
   handed to the peer is still passed to the transport once, in the order it was handed over - the refused chunk's
   messages included (they were passed; what the transport does with them is not the peer queue's business), and a
   message handed over while the flush is running goes out after those already queued
   {"e":"forward","n":messages handed to the peer (numbered in hand-over order),"passed":[numbers in the order the transport saw them]} *)
ForwardOK(ev) == ev.passed = [i \in 1..ev.n |-> i]

VARIABLE l
Ev == Log[l]
Check(e, ok) == l <= Len(Log) /\ Log[l].e = e /\ ok /\ l' = l + 1
TraceInit == l = 1 /\ MarkInit
TraceNext == \/ Check("split", SplitOK(Ev)) \/ Check("drain", DrainOK(Ev)) \/ Check("id", IdOK(Ev))
             \/ Check("idorder", IdOrderOK(Ev)) \/ Check("idunique", IdUniqueOK(Ev)) \/ Check("codec", CodecOK(Ev)) \/ Check("forward", ForwardOK(Ev))
MarkC == Mark(l)
=============================================================================
