---------------------------- MODULE Durable_Trace ----------------------------
(* Trace recorded from a storing child process (real storage.SSD) that is killed or stopped, and from the fresh
   process that reopens the directory:
     {"e":"begin","m":n} {"e":"ack","m":n} {"e":"crash"} {"e":"stop"}
     {"e":"reopen","ok":bool,"found":[n..],"unknown":k,"changed":k}
   found = the stored messages a history query returns after the restart; unknown = returned messages that were never
   stored; changed = found messages whose id / channel / payload / ttl differ from what was stored. *)
EXTENDS Durable, TraceLib
VARIABLE l
Ev == Log[l]
IsEvent(e) == l <= Len(Log) /\ Log[l].e = e /\ l' = l + 1

TrReset  == IsEvent("reset")  /\ attempted' = {} /\ disk' = {} /\ acked' = {} /\ up' = TRUE /\ seen' = {}
TrBegin  == IsEvent("begin")  /\ StoreBegin(Ev.m)
(* the acknowledgement implies the commit: Commit . Ack in one observed step *)
TrAck    == IsEvent("ack")    /\ up /\ Ev.m \in attempted /\ disk' = disk \cup {Ev.m} /\ acked' = acked \cup {Ev.m}
                              /\ UNCHANGED <<attempted, up, seen>>
TrCrash  == IsEvent("crash")  /\ Crash
TrStop   == IsEvent("stop")   /\ CleanStop
(* the store reopens; what it shows contains every acknowledged message, nothing that was never stored, unchanged;
   a message whose Store was in flight at the kill may or may not be there (its commit is inferred) *)
TrReopen == IsEvent("reopen") /\ ~up /\ Ev.ok /\ Ev.unknown = 0 /\ Ev.changed = 0
                              /\ LET f == ToSet(Ev.found) IN
                                 /\ acked \subseteq f /\ f \subseteq attempted
                                 /\ disk \subseteq f                      \* nothing that was durable (or seen before) disappears
                                 /\ disk' = f /\ seen' = f
                              /\ up' = TRUE /\ UNCHANGED <<attempted, acked>>

TraceInit == DurInit /\ l = 1 /\ MarkInit
TraceNext == TrReset \/ TrBegin \/ TrAck \/ TrCrash \/ TrStop \/ TrReopen
MarkC == Mark(l)
TraceInv == AckedSurvive /\ NoPhantoms
=============================================================================
