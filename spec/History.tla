------------------------------- MODULE History -------------------------------
(***************************************************************************)
(* Message history (provider/storage/ssd.go, message/id.go, Frame.Limit).  *)
(* A stored message = [seq, c, w, t, live, big]: creation sequence number, *)
(* contract, channel words, second, TTL still running, payload near the    *)
(* reply cap.  The storage key orders messages by                          *)
(*     <<Prefix(c, first level), newest second first, newest seq first>>   *)
(* where Prefix is the 32-bit xor of contract and first level: DIFFERENT   *)
(* (contract, level) pairs may share it (Collide).                         *)
(*   QueryImpl  transcribes SSD.lookup + Frame.Limit (what the code does)  *)
(*   QuerySpec  is property C06 in its own words                           *)
(***************************************************************************)
EXTENDS Naturals, Sequences, FiniteSets

CONSTANTS Collide(_, _),    \* Collide(<<c1, w1>>, <<c2, w2>>): same 32-bit key prefix
          Cap               \* how many "big" payloads fit one reply (the 64 KiB cap); small ones never fill it

PLUS == "+"
HASH == "#"

(* contracts C1, C2 and first levels a, b are chosen by the harness so that C1^hash(a) = C2^hash(b) and C1^hash(b) = C2^hash(a) *)
StdCollide(x, y) == (x = <<"C1", "a">> /\ y = <<"C2", "b">>) \/ (x = <<"C2", "b">> /\ y = <<"C1", "a">>)
                   \/ (x = <<"C1", "b">> /\ y = <<"C2", "a">>) \/ (x = <<"C2", "a">> /\ y = <<"C1", "b">>)


VARIABLES store, nseq
hvars == <<store, nseq>>

HistInit == store = {} /\ nseq = 0

(* Storage.Store: the id is created from the ssid, the time and a process-wide counter *)
StoreMsg(c, w, t, live, big) ==
    /\ store' = store \cup { [seq |-> nseq + 1, c |-> c, w |-> w, t |-> t, live |-> live, big |-> big] }
    /\ nseq'  = nseq + 1

SamePrefix(m, q) == (m.c = q.c /\ m.w[1] = q.f[1]) \/ Collide(<<m.c, m.w[1]>>, <<q.c, q.f[1]>>)

(* ID.Match: every level of the query equals the stored level or is a wildcard; the contract must be equal *)
IdMatch(m, q) == /\ m.c = q.c
                 /\ Len(q.f) <= Len(m.w)
                 /\ \A i \in 1..Len(q.f) : q.f[i] = m.w[i] \/ q.f[i] \in {PLUS, HASH}

Newer(a, b) == a.t > b.t \/ (a.t = b.t /\ a.seq > b.seq)           \* a sorts before b inside one prefix

(* the messages of one prefix in key order, as a sequence (newest first) *)
RECURSIVE KeyOrder(_)
KeyOrder(S) == IF S = {} THEN <<>>
               ELSE LET m == CHOOSE x \in S : \A y \in S : x = y \/ Newer(x, y) IN <<m>> \o KeyOrder(S \ {m})

(* q = [c, f, from, until, limit, after]   after = 0 or the seq of the message whose id is the continuation point *)
RECURSIVE Scan(_, _, _, _)
Scan(keys, q, acc, bigs) ==        \* the iterator loop of SSD.lookup
    IF keys = <<>> \/ Len(acc) >= q.limit THEN acc
    ELSE LET m == Head(keys) IN
         IF m.t < q.from THEN acc                                   \* HasPrefix(ssid, from) fails: the loop ends
         ELSE IF ~(IdMatch(m, q) /\ m.t >= q.from /\ m.t <= q.until) THEN Scan(Tail(keys), q, acc, bigs)
         ELSE IF m.big /\ bigs + 1 > Cap THEN acc                    \* size cap reached: break
         ELSE Scan(Tail(keys), q, Append(acc, m), IF m.big THEN bigs + 1 ELSE bigs)

QueryImpl(q) ==
    LET visible == { m \in store : m.live /\ SamePrefix(m, q) }      \* expired entries are invisible to the iterator
        keys    == KeyOrder(visible)
        start   == IF q.after = 0
                   THEN SelectSeq(keys, LAMBDA m : m.t <= q.until)   \* Seek(NewPrefix(ssid, until))
                   ELSE IF \E i \in DOMAIN keys : keys[i].seq = q.after
                        THEN LET i == CHOOSE j \in DOMAIN keys : keys[j].seq = q.after IN SubSeq(keys, i + 1, Len(keys))
                        ELSE <<>>
    IN  { m.seq : m \in { Scan(start, q, <<>>, 0)[i] : i \in DOMAIN Scan(start, q, <<>>, 0) } }

(* ---- C06 in its own words *)
FilterIsPrefix(f, w) == /\ Len(f) <= Len(w) /\ f[1] = w[1]
                        /\ \A i \in 1..Len(f) : f[i] = w[i] \/ (i > 1 /\ f[i] \in {PLUS, HASH})
Eligible(q) == { m \in store : m.c = q.c /\ FilterIsPrefix(q.f, m.w) /\ m.t >= q.from /\ m.t <= q.until /\ m.live
                               /\ (q.after = 0 \/ \E a \in store : a.seq = q.after /\ Newer(a, m)) }
(* the most recent `limit' of them that fit the reply: newest first, stop at the limit or when the cap is reached *)
RECURSIVE Take(_, _, _, _)
Take(S, n, bigs, acc) ==
    IF S = {} \/ n = 0 THEN acc
    ELSE LET m == CHOOSE x \in S : \A y \in S : x = y \/ Newer(x, y) IN
         IF m.big /\ bigs + 1 > Cap THEN acc
         ELSE Take(S \ {m}, n - 1, IF m.big THEN bigs + 1 ELSE bigs, acc \cup {m.seq})
QuerySpec(q) == Take(Eligible(q), q.limit, 0, {})

(* a continuation point only makes sense on a stored, still visible message of the same prefix *)
ValidQuery(q) == q.after = 0 \/ \E a \in store : a.seq = q.after /\ a.live /\ SamePrefix(a, q)
=============================================================================
