------------------------------ MODULE MC_Crdt ------------------------------
EXTENDS Crdt, Json
CONSTANTS MaxOps, MaxMsgs, Gen    \* Gen: "none" | "edges" (print the state graph) | "sim" (record behaviours in hist)
VARIABLES nops, hist
mvars == <<cvars, nops, hist>>

ASSUME DeltaLaws
ASSUME JoinLaws

Obs == [st |-> st, msgs |-> msgs]
Emit(a) == /\ Gen = "edges" => PrintT(<<"EDGE", ToJson([a |-> a, f |-> Obs, t |-> [st |-> st', msgs |-> msgs']])>>)
           /\ hist' = IF Gen = "sim" THEN Append(hist, a) ELSE hist
(* simulation mode: print the behaviour so far at every state; the harness keeps the maximal ones *)
Dump == Gen # "sim" \/ Len(hist) < 2 \/ PrintT(<<"BEH", ToJson(hist)>>)

MCInit == CrdtInit /\ nops = 0 /\ hist = <<>>

Room == Len(msgs) < MaxMsgs

MCAdd == \E r \in Replicas, k \in Keys, t \in Times, op \in {0} \cup Times :
            /\ nops < MaxOps /\ (op > 0 => Room /\ op >= t) /\ nops' = nops + 1
            /\ Add(r, k, t, op) /\ Emit([n |-> "add", r |-> r, k |-> k, t |-> t, op |-> op])
MCDel == \E r \in Replicas, k \in Keys, t \in Times, op \in {0} \cup Times :
            /\ nops < MaxOps /\ (op > 0 => Room /\ op >= t) /\ nops' = nops + 1
            /\ Del(r, k, t, op) /\ Emit([n |-> "del", r |-> r, k |-> k, t |-> t, op |-> op])
MCSnap == \E r \in Replicas : Room /\ Snapshot(r) /\ UNCHANGED nops /\ Emit([n |-> "snap", r |-> r])
MCDeliver == \E i \in 1..Len(msgs), r \in Replicas, relay \in BOOLEAN :
            /\ (relay => Room)
            /\ Deliver(i, r, relay) /\ UNCHANGED nops
            /\ Emit([n |-> "deliver", i |-> i, r |-> r, relay |-> relay])

MCNext == MCAdd \/ MCDel \/ MCSnap \/ MCDeliver
=============================================================================
