-------------------------------- MODULE Codec --------------------------------
(***************************************************************************)
(* Abstract contract of the key ciphers and license codecs (property C20): *)
(* an injective partial function with explicit rejection.  The arithmetic  *)
(* of XTEA / Salsa20 is not specified here (numeric fidelity is outside    *)
(* what this family decides); TLC evaluates the contract on events         *)
(* recorded from the real functions.                                       *)
(*   keyrt     EncryptKey(k) is 32 URL-safe characters and decrypts to k   *)
(*   keyinj    distinct keys give distinct strings                         *)
(*   keyreject a string that is not 32 valid characters is refused with an *)
(*             error (no panic, no key)                                    *)
(*   licrt     New -> String -> Parse gives the same contract, signature,  *)
(*             master index, and a cipher that decrypts the other's keys   *)
(*   licparse  Parse(any string) = a license or an error, never a panic    *)
(***************************************************************************)
EXTENDS Naturals, Sequences, TraceLib

KeyRoundTrip(ev) == ~ev.panic /\ ~ev.err /\ ev.len = 32 /\ ev.urlsafe /\ ev.equal
KeyInjective(ev) == ev.distinct = ev.n
KeyRejected(ev)  == ~ev.panic /\ ev.err                        \* malformed input: an error, nothing else
LicRoundTrip(ev) == ~ev.panic /\ ~ev.err /\ ev.contract /\ ev.signature /\ ev.master /\ ev.cipher
TotalOrError(ev) == ~ev.panic                                   \* a license or an error

VARIABLE l
Ev == Log[l]
Check(e, ok) == l <= Len(Log) /\ Log[l].e = e /\ ok /\ l' = l + 1
TraceInit == l = 1 /\ MarkInit
TraceNext == \/ Check("keyrt", KeyRoundTrip(Ev)) \/ Check("keyinj", KeyInjective(Ev)) \/ Check("keyreject", KeyRejected(Ev))
             \/ Check("licrt", LicRoundTrip(Ev)) \/ Check("licparse", TotalOrError(Ev))
MarkC == Mark(l)
=============================================================================
