--------------------------- MODULE MC_WsTransport ---------------------------
EXTENDS WsTransport, Json, TLC
CONSTANTS MaxFrames, Gen
VARIABLES hist, started
mvars == <<tvars, hist, started>>
View == <<tvars, started>>

(* every way of cutting 1..N into at most MaxFrames data messages (empty ones allowed), with text/binary kinds and
   control messages in between *)
RECURSIVE Partitions(_, _)
Partitions(from, k) ==
    IF from > N THEN { <<>> } \cup (IF k > 0 THEN { <<<<>>>> } ELSE {})
    ELSE IF k = 0 THEN {}
    ELSE UNION { { <<[i \in 1..(to - from + 1) |-> from + i - 1]>> \o rest : rest \in Partitions(to + 1, k - 1) } : to \in (from - 1)..N }
Kinds(ps) == { [i \in DOMAIN ps |-> [kind |-> IF (i % 2) = m THEN "bin" ELSE "text", data |-> ps[i]]] : m \in {0, 1} }
WithCtrl(fs) == { fs, <<[kind |-> "ctrl", data |-> <<>>]>> \o fs }
                \cup (IF Len(fs) >= 1 THEN { <<fs[1], [kind |-> "ctrl", data |-> <<>>]>> \o Tail(fs) } ELSE {})
FrameSeqs == UNION { UNION { WithCtrl(fs) : fs \in Kinds(ps) } : ps \in { p \in Partitions(1, MaxFrames) : Len(p) <= MaxFrames } }

Emit(a) == /\ Gen = "edges" => PrintT(<<"EDGE", ToJson([a |-> a, f |-> [frames |-> frames, reader |-> reader, open |-> open, cur |-> cur, sent |-> sent, started |-> started],
                    t |-> [frames |-> frames', reader |-> reader', open |-> open', cur |-> cur', sent |-> sent', started |-> started']])>>)
           /\ hist' = IF Gen = "sim" THEN Append(hist, a) ELSE hist

MCInit == /\ frames = <<>> /\ reader = <<>> /\ open = FALSE /\ cur = 0 /\ last = [data |-> <<>>, err |-> "nil"] /\ sent = <<>>
          /\ hist = <<>> /\ started = FALSE
MCNext == \/ \E fs \in FrameSeqs : /\ ~started /\ started' = TRUE /\ frames' = fs
                                   /\ UNCHANGED <<reader, open, cur, last, sent>> /\ Emit([n |-> "feed", frames |-> fs])
          \/ \E n \in 1..MaxBuf, e \in BOOLEAN : /\ started /\ last.err # "closed" /\ Read(n, e) /\ UNCHANGED started
                                                /\ Emit([n |-> "read", size |-> n, eof |-> e])
          \/ \E len \in 0..2 : /\ started /\ Len(sent) < 2 /\ Write([i \in 1..len |-> 100 + Len(sent) * 10 + i]) /\ UNCHANGED started
                              /\ Emit([n |-> "write", p |-> [i \in 1..len |-> 100 + Len(sent) * 10 + i]])
Dump == Gen # "sim" \/ Len(hist) < 2 \/ PrintT(<<"BEH", ToJson(hist)>>)
=============================================================================
