-------------------------------- MODULE AuthZ --------------------------------
(***************************************************************************)
(* Channel keys and authorization (security/key.go, security/channel.go,   *)
(* broker/service.go:Authorize, provider/contract, service/keygen).        *)
(* A functional module: no behaviour, only relations.                      *)
(*                                                                         *)
(*   Covers      the target rule of property C03, written from its text    *)
(*   CodeCovers  the bit-path / hash arithmetic of Key.ValidateChannel at  *)
(*               the level of words (hash equality = string equality)      *)
(* Where the two differ the difference is named (Dev..): these are the     *)
(* candidate findings; TLC checks that nothing else differs.               *)
(***************************************************************************)
EXTENDS Naturals, Sequences, FiniteSets

PLUS == "+"
HASH == "#"

(* a target / a requested channel: w = the levels, hash = ends with "#/" *)
Chan(w, h) == [w |-> w, hash |-> h]

NeededPerm(op) == CASE op = "subscribe" -> "r" [] op = "publish" -> "w" [] op = "history" -> "l"
                    [] op = "presence" -> "p" [] op = "extend" -> "e"

(* ---- C03, target rule: literal levels equal, '+' levels free, same depth for exact targets, at least that depth for
   '#/' targets, request wildcards only where the target is wildcard or beyond its depth.  A request ending in '#'
   reaches below its last level, so only a '#/' target can cover it. *)
LevelOK(ti, ri) == ti = PLUS \/ (ti = ri /\ ri # PLUS)
Covers(t, r) ==
    IF t.hash
    THEN Len(r.w) >= Len(t.w) /\ \A i \in 1..Len(t.w) : LevelOK(t.w[i], r.w[i])
    ELSE ~r.hash /\ Len(r.w) = Len(t.w) /\ \A i \in 1..Len(t.w) : LevelOK(t.w[i], r.w[i])

(* ---- Key.SetTarget + Key.ValidateChannel as the code computes them *)
Lits(t)      == { i \in 1..Len(t.w) : t.w[i] # PLUS /\ t.w[i] # HASH }
MaxOf(S)     == CHOOSE x \in S : \A y \in S : y <= x
(* raw key fields: lits = levels whose bit is set in the 23-bit path, exact = bit 23, tw = the string whose hash is stored *)
CodeCoversRaw(lits, exact, tw, r) ==
    LET path0 == lits = {} /\ ~exact                 \* bit path = 0: "retro-compatibility" branch
    IN
    IF path0
    THEN IF tw = <<>> THEN TRUE                                      \* target "#/" = hash("")
         ELSE Len(tw) = 1 /\ Len(r.w) >= 1 /\ tw[1] = r.w[1]          \* hash(target) = hash(first level)
    ELSE LET maxDepth == IF lits = {} THEN Len(r.w) ELSE MaxOf(lits)
             masked   == [i \in 1..maxDepth |-> IF i \in lits THEN r.w[i] ELSE PLUS]
         IN  /\ Len(r.w) >= maxDepth
             /\ exact => (Len(r.w) = maxDepth /\ ~r.hash)             \* (the '#' clause since fix 8119063)
             /\ \A i \in 1..Len(r.w) : i \in lits => r.w[i] # PLUS
             /\ masked = tw                                           \* hash(masked request) = hash(target)
CodeCovers(t, r) == CodeCoversRaw(Lits(t), ~t.hash, t.w, r)

(* ---- named deviations *)
(* a target whose last level is '+' (after its last literal) loses those levels: it authorizes nothing,
   or - for '+/#/' - only requests whose first level is the literal '+' *)
DevTrailingPlus(t, r) == /\ t.w # <<>> /\ t.w[Len(t.w)] = PLUS
                         /\ ~(~t.hash /\ Lits(t) = {})                \* exact all-'+' targets do work
(* (repaired by fix 8119063: a request ending in '#' used to be stripped of it before the depth check, so an exact
   target accepted 'a/#/' as 'a/'; kept as a named deviation so that its return is recognised) *)
DevExactHash(t, r) == FALSE
(* '+/#/' takes the retro-compatibility branch and also accepts the request '+/...' *)
Named(t, r) == DevTrailingPlus(t, r) \/ DevExactHash(t, r)
Tag(t, r)   == IF DevExactHash(t, r) THEN "exact_target_accepts_hash_request"
               ELSE IF DevTrailingPlus(t, r) THEN "trailing_plus_dead" ELSE ""

(* ---- the whole decision (broker.Service.Authorize) *)
(* key = [decrypts, contract \in {"own","foreign"}, sigOK, masterOK, perms, expiry \in {"none","past","future"}, banned, target] *)
Authorize(key, r, op, cover(_, _)) ==
    /\ ~key.banned
    /\ key.decrypts
    /\ key.expiry # "past"
    /\ key.contract = "own" /\ key.sigOK /\ key.masterOK
    /\ NeededPerm(op) \in key.perms
    /\ cover(key.target, r)
---------------------------------------------------------------------------
(* ---- C11: key generation (keygen.OnRequest -> CreateKey / ExtendKey) *)
(* parent = [kind, perms, target, expired]; kind \in {"master", "master-foreign", "master-badsig", "channel", "garbage"}
   request = [type: set of letters, ttl \in {"zero", "future", "past", "farpast"}, ch: Chan, chOK: BOOLEAN (ends with "/"), long: BOOLEAN]
   result  = [status, and for 200: perms, target, expiry, master, contractOK] *)
TypePerms(type) == type \cap {"r", "w", "s", "l", "p", "e", "x"}      \* unknown letters are ignored; never "m"
ExpiryOf(ttl)   == CASE ttl = "zero" -> "none" [] ttl = "future" -> "future" [] OTHER -> "past"
Err(code)       == [status |-> code]

CreateKey(parent, req) ==
    IF parent.kind = "master-foreign" THEN Err(404)                   \* contract unknown to this broker
    ELSE IF parent.kind = "master-badsig" THEN Err(401)
    ELSE IF ~req.chOK \/ req.long THEN Err(400)
    ELSE [status |-> 200, perms |-> TypePerms(req.type), target |-> req.ch, expiry |-> ExpiryOf(req.ttl), sub |-> FALSE]

(* extension: only static channels; the parent must hold "e" and cover the channel; the new key targets
   channel + connection id (+ "#/"), holds parent permissions (minus e) that were also requested *)
ExtendKey(parent, req, cover(_, _)) ==
    IF ~req.chOK \/ \E i \in DOMAIN req.ch.w : req.ch.w[i] \in {PLUS, HASH} THEN Err(400)
    ELSE IF ~cover(parent.target, Chan(req.ch.w, FALSE)) THEN Err(401)
    ELSE [status |-> 200, perms |-> (parent.perms \ {"e"}) \cap TypePerms(req.type),
          target |-> Chan(Append(req.ch.w, "CONN"), req.ch.hash), expiry |-> ExpiryOf(req.ttl), sub |-> TRUE]

KeyGen(parent, req, cover(_, _)) ==
    IF parent.kind = "garbage" \/ parent.expired THEN Err(401)
    ELSE IF parent.kind \in {"master", "master-foreign", "master-badsig"} THEN CreateKey(parent, req)
    ELSE IF "e" \in parent.perms THEN ExtendKey(parent, req, cover)
    ELSE Err(401)

(* containment lemmas of C11, over any parent / request *)
Contained(parent, req, res) ==
    res.status = 200 =>
        /\ "m" \notin res.perms
        /\ res.perms \subseteq TypePerms(req.type)
        /\ (res.sub => res.perms \subseteq parent.perms /\ "e" \notin res.perms)
        /\ parent.kind \in {"master", "channel"} /\ ~parent.expired
---------------------------------------------------------------------------
(* ---- C12: an attacker who holds an issued key string but not the license secret.
   A raw key = [salt, master, contract, sig : "ok" | "bad", lits, exact, tw, perms, expiry].
   Field-level tamper operations and what each cipher kind makes of them:
     "auth"    (intended design) any modification is rejected
     "block8"  license v1, XTEA in ECB mode over three 8-byte blocks  B0 = salt, master, contract
               B1 = signature, path, permissions   B2 = target hash, expiry:
               a modified block decrypts to noise; every block holds a field whose noise kills the key
     "stream"  license v2 (XSalsa20 with a fixed nonce) / v3 (nonce salted by the clear-text salt):
               the targeted field changes exactly as the attacker wishes, nothing else does *)
RawOf(perms, t, expiry) == [ok |-> TRUE, perms |-> perms, lits |-> Lits(t), exact |-> ~t.hash, tw |-> t.w, expiry |-> expiry]
Dead == [ok |-> FALSE, perms |-> {}, lits |-> {}, exact |-> TRUE, tw |-> <<"garbage">>, expiry |-> "none"]

GrantsRaw(k, probes) ==
    { p \in probes : k.ok /\ k.expiry # "past" /\ NeededPerm(p.op) \in k.perms /\ CodeCoversRaw(k.lits, k.exact, k.tw, p.req) }

(* op = [f, arg]:  f = "perm" (toggle letter arg), "exact" (toggle bit 23), "lit" (toggle path bit arg),
   "target" (xor the stored hash into the hash of the string arg), "expiry" (rewrite to arg),
   "id" (contract / signature / master / salt under v1, v3), "swap" (exchange two 8-byte blocks) *)
TamperStream(k, op) ==
    CASE op.f = "perm"   -> [k EXCEPT !.perms = IF op.arg \in @ THEN @ \ {op.arg} ELSE @ \cup {op.arg}]
      [] op.f = "exact"  -> [k EXCEPT !.exact = ~@]
      [] op.f = "lit"    -> [k EXCEPT !.lits = IF op.arg \in @ THEN @ \ {op.arg} ELSE @ \cup {op.arg}]
      [] op.f = "target" -> [k EXCEPT !.tw = op.arg]
      [] op.f = "expiry" -> [k EXCEPT !.expiry = op.arg]
      [] OTHER           -> Dead
Tamper(kind, k, op) ==
    CASE kind = "stream" -> TamperStream(k, op)
      [] OTHER           -> Dead               \* "auth": rejected; "block8": noise in a block that carries sig / contract / target

TamperSafe(kind, k, op, probes) == GrantsRaw(Tamper(kind, k, op), probes) \subseteq GrantsRaw(k, probes)
=============================================================================
