------------------------------- MODULE PeerQueue -------------------------------
(***************************************************************************)
(* Forwarding queue of a remote peer (internal/service/cluster/peer.go):   *)
(* Send = Lock, append to the frame (iff active), Unlock;                  *)
(* processSendQueue = unlocked length check, swap (Lock, take the frame,   *)
(* fresh frame, Unlock), then split / encode / unicast chunk by chunk.     *)
(* Threads: senders and flushers; one step = a thread running to its next  *)
(* verif.At gate (peer.flush.nonempty / swapped / sent) or to the return.  *)
(* A chunk holds at most ChunkMax messages (stands for the 10 MiB bound).  *)
(***************************************************************************)
EXTENDS Naturals, Sequences, FiniteSets

CONSTANTS Senders, Flushers, NMsgs, NRounds, ChunkMax

VARIABLES pc, cnt,      \* cnt[t]: calls completed
          frame,        \* p.frame
          taken,        \* taken[f]: the flusher's local `frame' variable (what is left to send)
          wire          \* sequence of unicasts, each a sequence of messages <<sender, i>>
pvars == <<pc, cnt, frame, taken, wire>>

Threads  == Senders \cup Flushers
Quota(t) == IF t \in Senders THEN NMsgs ELSE NRounds
Min(a, b) == IF a < b THEN a ELSE b

PQInit == /\ pc = [t \in Threads |-> "idle"] /\ cnt = [t \in Threads |-> 0]
          /\ frame = <<>> /\ taken = [f \in Flushers |-> <<>>] /\ wire = <<>>

Finish(t) == /\ cnt' = [cnt EXCEPT ![t] = @ + 1]
             /\ pc'  = [pc EXCEPT ![t] = IF cnt[t] + 1 >= Quota(t) THEN "end" ELSE "idle"]

(* Peer.Send: atomic under the peer's mutex *)
Send(s) == /\ s \in Senders /\ pc[s] = "idle"
           /\ frame' = Append(frame, <<s, cnt[s] + 1>>)
           /\ Finish(s) /\ UNCHANGED <<taken, wire>>

(* processSendQueue *)
FStart(f) == /\ f \in Flushers /\ pc[f] = "idle"
             /\ IF Len(frame) = 0 THEN Finish(f) /\ UNCHANGED <<frame, taken, wire>>
                ELSE pc' = [pc EXCEPT ![f] = "nonempty"] /\ UNCHANGED <<cnt, frame, taken, wire>>
FSwap(f)  == /\ pc[f] = "nonempty"
             /\ taken' = [taken EXCEPT ![f] = frame] /\ frame' = <<>>
             /\ pc' = [pc EXCEPT ![f] = "swapped"] /\ UNCHANGED <<cnt, wire>>
(* one turn of the loop: split off a chunk, encode, unicast; an empty chunk ends the loop *)
FChunk(f) == /\ pc[f] \in {"swapped", "sent"}
             /\ IF taken[f] = <<>>
                THEN Finish(f) /\ UNCHANGED <<frame, taken, wire>>
                ELSE LET k == Min(ChunkMax, Len(taken[f])) IN
                     /\ wire'  = Append(wire, SubSeq(taken[f], 1, k))
                     /\ taken' = [taken EXCEPT ![f] = SubSeq(@, k + 1, Len(@))]
                     /\ pc' = [pc EXCEPT ![f] = "sent"] /\ UNCHANGED <<cnt, frame>>

Step(t) == Send(t) \/ FStart(t) \/ FSwap(t) \/ FChunk(t)
PQNext == \E t \in Threads : Step(t)

RECURSIVE Flat(_)
Flat(ss) == IF ss = <<>> THEN <<>> ELSE Head(ss) \o Flat(Tail(ss))
OfSender(s, x) == SelectSeq(s, LAMBDA m : m[1] = x)
(* C19: every message handed to the peer is passed to the transport exactly once and in order *)
Pending == Flat(wire) \o Flat([i \in 1..Cardinality(Flushers) |-> <<>>])     \* (wire so far)
InOrderOnce == \A s \in Senders : \A i \in 1..Len(OfSender(Flat(wire), s)) : OfSender(Flat(wire), s)[i][2] = i
ChunkBound  == \A i \in DOMAIN wire : Len(wire[i]) <= ChunkMax /\ Len(wire[i]) >= 1
AllDone     == \A t \in Threads : pc[t] = "end"
(* once every thread has finished, whatever was sent before the last flush started is on the wire; nothing is on it twice *)
NoDuplicates == \A i, j \in 1..Len(Flat(wire)) : i # j => Flat(wire)[i] # Flat(wire)[j]
=============================================================================
