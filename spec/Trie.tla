------------------------------- MODULE Trie -------------------------------
(***************************************************************************)
(* Subscription index of one broker (internal/message/subtrie.go, sub.go). *)
(*                                                                         *)
(* Implementation-shaped part: `nodes' (prefix-closed set of paths that    *)
(* exist as trie nodes), `subsAt' (subscriber set per node), `count'; one  *)
(* action per critical section under Trie.Lock.  LkE / LkM / ImplResults   *)
(* transcribe lookupEmitter / lookupMqtt / randomByGroup.                  *)
(*                                                                         *)
(* Property part (C01): ghost `S' = set of <<filter, subscriber>> pairs;   *)
(* Matches / SpecResults are written from the property statement.          *)
(*                                                                         *)
(* A filter / channel / ssid is a sequence of words whose first element is *)
(* the contract.  The harness maps word w to hash.OfString(w), so "+", "#" *)
(* and "$share" meet the constants wildcard, multiWildcard, share.         *)
(***************************************************************************)
EXTENDS Match, TLC

VARIABLES nodes, subsAt, count, S
tvars == <<nodes, subsAt, count, S>>

Prefixes(f)     == { SubSeq(f, 1, k) : k \in 0..Len(f) }
Parent(p)       == SubSeq(p, 1, Len(p) - 1)
IsPrefixOf(p,q) == Len(p) <= Len(q) /\ SubSeq(q, 1, Len(p)) = p
Children(ns, p) == { q \in ns : Len(q) = Len(p) + 1 /\ IsPrefixOf(p, q) }

TrieInit ==
    /\ nodes  = { <<>> }
    /\ subsAt = [ p \in { <<>> } |-> {} ]
    /\ count  = 0
    /\ S      = {}

At(p) == IF p \in nodes THEN subsAt[p] ELSE {}

(* Trie.Subscribe: create missing nodes, AddUnique, count++ iff new *)
Subscribe(f, s) ==
    /\ nodes'  = nodes \cup Prefixes(f)
    /\ subsAt' = [ p \in nodes' |-> IF p = f THEN At(p) \cup {s} ELSE At(p) ]
    /\ count'  = IF s \in At(f) THEN count ELSE count + 1
    /\ S'      = S \cup { <<f, s>> }

(* node.orphan(): unlink p, then the parent while it has neither subscribers nor children; never the root *)
RECURSIVE Prune(_, _, _)
Prune(ns, sa, p) ==
    IF p = <<>> THEN ns
    ELSE LET ns2 == ns \ {p}
             par == Parent(p)
         IN  IF sa[par] = {} /\ Children(ns2, par) = {} THEN Prune(ns2, sa, par) ELSE ns2

(* Trie.Unsubscribe: walk, return if a node is missing, Remove, count-- iff present, orphan upward *)
Unsubscribe(f, s) ==
    IF f \notin nodes
    THEN UNCHANGED tvars
    ELSE LET sa1 == [ subsAt EXCEPT ![f] = @ \ {s} ]
             ns1 == IF sa1[f] = {} /\ Children(nodes, f) = {} THEN Prune(nodes, sa1, f) ELSE nodes
         IN  /\ nodes'  = ns1
             /\ subsAt' = [ p \in ns1 |-> sa1[p] ]
             /\ count'  = IF s \in subsAt[f] THEN count - 1 ELSE count
             /\ S'      = S \ { <<f, s>> }

---------------------------------------------------------------------------
(* Transcription of the lookups (what the code computes) *)

RECURSIVE LkE(_, _, _, _)
LkE(ns, sa, q, p) ==
    sa[p] \cup
    ( IF q = <<>> THEN {}
      ELSE ( IF Append(p, Head(q)) \in ns THEN LkE(ns, sa, Tail(q), Append(p, Head(q))) ELSE {} )
           \cup
           ( IF Append(p, PLUS) \in ns THEN LkE(ns, sa, Tail(q), Append(p, PLUS)) ELSE {} ) )

RECURSIVE LkM(_, _, _, _)
LkM(ns, sa, q, p) ==
    IF q = <<>> THEN sa[p]
    ELSE ( IF Append(p, Head(q)) \in ns THEN LkM(ns, sa, Tail(q), Append(p, Head(q))) ELSE {} )
         \cup
         ( IF Append(p, PLUS) \in ns THEN LkM(ns, sa, Tail(q), Append(p, PLUS)) ELSE {} )
         \cup
         ( IF Append(p, HASH) \in ns THEN sa[Append(p, HASH)] ELSE {} )

Lk(ns, sa, q, p) == IF Mode = "emitter" THEN LkE(ns, sa, q, p) ELSE LkM(ns, sa, q, p)

(* Trie.Lookup = lookup from the root + one random member per share group (randomByGroup).
   The set of all results the code may return for channel ch with the subscribers in excl filtered out. *)
ImplResults(ns, sa, ch, excl) ==
    LET direct == Lk(ns, sa, ch, <<>>) \ excl
        shareN == <<ch[1], SHARE>>
        groups == IF shareN \in ns THEN Children(ns, shareN) ELSE {}
        cand(g) == Lk(ns, sa, Tail(ch), g) \ excl
        live   == { g \in groups : cand(g) # {} }
        picks  == { pk \in [ live -> UNION { cand(g) : g \in live } ] : \A g \in live : pk[g] \in cand(g) }
    IN  { direct \cup { pk[g] : g \in live } : pk \in picks }

---------------------------------------------------------------------------
(* The property's own words (C01): Matches / SpecResults come from Match.tla *)

---------------------------------------------------------------------------
(* Invariants *)

Refines      == /\ \A p \in nodes : subsAt[p] = { q[2] : q \in { r \in S : r[1] = p } }
                /\ \A q \in S : q[1] \in nodes
                /\ DOMAIN subsAt = nodes
CountOK      == count = Cardinality(S)
PrefixClosed == \A p \in nodes : p = <<>> \/ Parent(p) \in nodes
NoOrphans    == \A p \in nodes : p = <<>> \/ \E q \in nodes : IsPrefixOf(p, q) /\ subsAt[q] # {}
EmptyAgain   == S = {} => nodes = { <<>> }

LookupExactFor(chs, excls) ==
    \A ch \in chs : \A x \in excls : ImplResults(nodes, subsAt, ch, x) = SpecResults(S, ch, x)
=============================================================================
