----------------------------- MODULE MC_PeerQueue -----------------------------
EXTENDS PeerQueue, Json, TLC
CONSTANT Gen
VARIABLE hist
View == pvars
Obs == [pc |-> pc, cnt |-> cnt, frame |-> frame, taken |-> taken, wire |-> wire]
MCInit == PQInit /\ hist = <<>>
MCNext == \E t \in Threads :
            /\ Step(t)
            /\ Gen = "edges" => PrintT(<<"EDGE", ToJson([a |-> [n |-> "step", t |-> t], f |-> Obs,
                                  t |-> [pc |-> pc', cnt |-> cnt', frame |-> frame', taken |-> taken', wire |-> wire']])>>)
            /\ hist' = IF Gen = "sim" THEN Append(hist, [n |-> "step", t |-> t]) ELSE hist
Dump == Gen # "sim" \/ Len(hist) < 2 \/ PrintT(<<"BEH", ToJson(hist)>>)
=============================================================================
