------------------------------- MODULE Durable -------------------------------
(***************************************************************************)
(* Durability of the disk-backed message store (provider/storage/ssd.go).  *)
(* attempted: messages whose Store call has begun; disk: messages whose    *)
(* transaction is durable; acked: messages whose Store call has returned.  *)
(* A crash (kill -9) may land anywhere: what was committed stays, an       *)
(* in-flight Store may or may not have committed.  Reopen always succeeds  *)
(* and shows exactly the disk.                                             *)
(***************************************************************************)
EXTENDS Naturals, FiniteSets

CONSTANT Msgs
VARIABLES attempted, disk, acked, up, seen
dvars == <<attempted, disk, acked, up, seen>>

DurInit == attempted = {} /\ disk = {} /\ acked = {} /\ up = TRUE /\ seen = {}

StoreBegin(m) == up /\ m \notin attempted /\ attempted' = attempted \cup {m} /\ UNCHANGED <<disk, acked, up, seen>>
Commit(m)     == up /\ m \in attempted /\ disk' = disk \cup {m} /\ UNCHANGED <<attempted, acked, up, seen>>
Ack(m)        == up /\ m \in disk /\ acked' = acked \cup {m} /\ UNCHANGED <<attempted, disk, up, seen>>      \* Store returns only after the commit
Crash         == up /\ up' = FALSE /\ UNCHANGED <<attempted, disk, acked, seen>>
CleanStop     == up /\ up' = FALSE /\ UNCHANGED <<attempted, disk, acked, seen>>
Reopen        == ~up /\ up' = TRUE /\ seen' = disk /\ UNCHANGED <<attempted, disk, acked>>

DurNext == (\E m \in Msgs : StoreBegin(m) \/ Commit(m) \/ Ack(m)) \/ Crash \/ CleanStop \/ Reopen

(* C15 *)
AckedSurvive  == acked \subseteq disk
NoPhantoms    == disk \subseteq attempted
SeenIsHonest  == acked \cap seen \subseteq disk /\ seen \subseteq attempted
=============================================================================
