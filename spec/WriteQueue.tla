------------------------------ MODULE WriteQueue ------------------------------
(***************************************************************************)
(* Write path of listener.Conn (internal/network/listener/conn.go):        *)
(* Write = Limit() -> enqueue | (Len() > 0 -> enqueue; Flush) | direct     *)
(* socket write;  Flush = Len() check, Lock, socket write, Reset, Unlock.  *)
(* Threads are writers (each writes its packets in program order) and      *)
(* flushers (the 1 s timer).  One step = a thread running from one gate    *)
(* (verif.At point in the code) to the next; a step that needs the         *)
(* RWMutex is enabled only when the mutex is free.  A socket write is      *)
(* atomic with respect to other socket writes (net.TCPConn semantics).     *)
(***************************************************************************)
EXTENDS Naturals, Sequences, FiniteSets

CONSTANTS Writers,      \* e.g. {"w1", "w2"}
          Flushers,     \* e.g. {"t"}
          NPackets,     \* packets per writer
          NRounds       \* Flush calls per flusher

VARIABLES pc,       \* pc[t]: gate the thread is parked at ("idle" = between calls, "end" = finished)
          idx,      \* idx[w]: packets fully handed over so far / rounds done
          queue,    \* the bytes.Buffer write queue: sequence of packets <<w, i>>
          sock,     \* sequence of socket writes, each a sequence of packets
          lock      \* holder of the write lock ("" = free)
wvars == <<pc, idx, queue, sock, lock>>

Threads == Writers \cup Flushers
Quota(t) == IF t \in Writers THEN NPackets ELSE NRounds
Pkt(w)   == <<w, idx[w] + 1>>                      \* the packet the writer is handing over

WQInit ==
    /\ pc    = [t \in Threads |-> "idle"]
    /\ idx   = [t \in Threads |-> 0]
    /\ queue = <<>>
    /\ sock  = <<>>
    /\ lock  = ""

Goto(t, g)  == pc' = [pc EXCEPT ![t] = g]
Finish(t)   == /\ idx' = [idx EXCEPT ![t] = @ + 1]
               /\ pc'  = [pc EXCEPT ![t] = IF idx[t] + 1 >= Quota(t) THEN "end" ELSE "idle"]
Free        == lock = ""

(* --- Conn.Write *)
(* the call starts; the limiter answers lim *)
WStart(w, lim) == /\ pc[w] = "idle" /\ w \in Writers
                  /\ Goto(w, IF lim THEN "limited" ELSE "unlimited")
                  /\ UNCHANGED <<idx, queue, sock, lock>>
(* rate-limited: enqueue (Lock, append, Unlock) and return *)
WEnqueueLimited(w) == /\ pc[w] = "limited" /\ Free
                      /\ queue' = Append(queue, Pkt(w))
                      /\ Finish(w) /\ UNCHANGED <<sock, lock>>
(* not limited: Len() under the read lock decides between flush-on-write and the direct path *)
WLen(w) == /\ pc[w] = "unlimited" /\ Free
           /\ Goto(w, IF Len(queue) > 0 THEN "nonempty" ELSE "direct")
           /\ UNCHANGED <<idx, queue, sock, lock>>
WEnqueueThenFlush(w) == /\ pc[w] = "nonempty" /\ Free
                        /\ queue' = Append(queue, Pkt(w))
                        /\ Goto(w, "enqueued") /\ UNCHANGED <<idx, sock, lock>>
WDirect(w) == /\ pc[w] = "direct"
              /\ sock' = Append(sock, <<Pkt(w)>>)
              /\ Finish(w) /\ UNCHANGED <<queue, lock>>

(* --- Conn.Flush, called by a writer after "enqueued" or by a flusher from "idle" *)
FCheck(t) == /\ (pc[t] = "enqueued" /\ t \in Writers) \/ (pc[t] = "idle" /\ t \in Flushers)
             /\ Free
             /\ IF Len(queue) = 0
                THEN Finish(t) /\ UNCHANGED <<queue, sock, lock>>
                ELSE Goto(t, "checked") /\ UNCHANGED <<idx, queue, sock, lock>>
FLock(t)  == /\ pc[t] = "checked" /\ Free
             /\ lock' = t /\ Goto(t, "locked") /\ UNCHANGED <<idx, queue, sock>>
FWrite(t) == /\ pc[t] = "locked"
             /\ sock' = Append(sock, queue)                 \* socket.Write(writer.Bytes()) under the lock
             /\ Goto(t, "written") /\ UNCHANGED <<idx, queue, lock>>
FReset(t) == /\ pc[t] = "written"
             /\ queue' = <<>> /\ lock' = ""                  \* Reset(); Unlock()
             /\ Goto(t, "done") /\ UNCHANGED <<idx, sock>>
FDone(t)  == /\ pc[t] = "done"
             /\ Finish(t) /\ UNCHANGED <<queue, sock, lock>>

Step(t, lim) ==
    \/ WStart(t, lim) \/ (~lim /\ (WEnqueueLimited(t) \/ WLen(t) \/ WEnqueueThenFlush(t) \/ WDirect(t)
                                   \/ FCheck(t) \/ FLock(t) \/ FWrite(t) \/ FReset(t) \/ FDone(t)))
WQNext == \E t \in Threads, lim \in BOOLEAN : Step(t, lim)

---------------------------------------------------------------------------
RECURSIVE Flat(_)
Flat(ss) == IF ss = <<>> THEN <<>> ELSE Head(ss) \o Flat(Tail(ss))
(* what the peer has or will have received, in order (between the socket write and Reset the queue is already on the socket) *)
Stream   == Flat(sock) \o (IF \E t \in Threads : pc[t] = "written" THEN <<>> ELSE queue)
OfWriter(s, w) == SelectSeq(s, LAMBDA p : p[1] = w)

(* C10 / C17: per-writer order, nothing duplicated, nothing lost *)
PerWriterOrder == \A w \in Writers : \A i \in 1..Len(OfWriter(Flat(sock), w)) : OfWriter(Flat(sock), w)[i][2] = i
NoDuplicates   == \A i, j \in 1..Len(Stream) : i # j => Stream[i] # Stream[j]
(* every packet handed over completely is in the stream (in flight direct writes excepted) *)
NothingLost    == \A w \in Writers : \A i \in 1..idx[w] : \E k \in 1..Len(Stream) : Stream[k] = <<w, i>>
(* when everybody has finished and a final flush has run, everything is on the socket *)
AllDone == \A t \in Threads : pc[t] = "end"
=============================================================================
