-------------------------------- MODULE Mqtt --------------------------------
(***************************************************************************)
(* MQTT 3.1.1 control packet layout (OASIS standard, sections 2 and 3),    *)
(* written from the standard and independent of internal/network/mqtt.     *)
(* A byte string is a sequence of runs [n |-> count, b |-> byte value] so  *)
(* that strings and payloads of boundary lengths (127/128, 16383/16384,    *)
(* 64 KiB) stay small values.  A string / payload is itself one run.       *)
(***************************************************************************)
EXTENDS Naturals, Sequences

Byte(x)    == <<[n |-> 1, b |-> x]>>
Run(s)     == IF s.n = 0 THEN <<>> ELSE <<[n |-> s.n, b |-> s.b]>>      \* s = [n, b]: n copies of byte b
U16(x)     == Byte(x \div 256) \o Byte(x % 256)
Str(s)     == U16(s.n) \o Run(s)                                        \* 1.5.3 UTF-8 encoded strings
Size(bs)   == IF bs = <<>> THEN 0 ELSE LET F[i \in 0..Len(bs)] == IF i = 0 THEN 0 ELSE F[i - 1] + bs[i].n IN F[Len(bs)]
B(v)       == IF v THEN 1 ELSE 0

(* 2.2.3 Remaining Length: 7 bits per byte, least significant group first, continuation bit 0x80 *)
RECURSIVE RemLen(_)
RemLen(x)  == IF x < 128 THEN Byte(x) ELSE Byte((x % 128) + 128) \o RemLen(x \div 128)

Fixed(type, flags, body) == Byte(type * 16 + flags) \o RemLen(Size(body)) \o body

HdrFlags(h) == B(h.dup) * 8 + h.qos * 2 + B(h.retain)

(* 3.1 CONNECT *)
ConnectFlags(p) == B(p.userFlag) * 128 + B(p.passFlag) * 64 + B(p.willRetain) * 32 + p.willQos * 8
                   + B(p.willFlag) * 4 + B(p.clean) * 2
ConnectBody(p)  == Str(p.proto) \o Byte(p.version) \o Byte(ConnectFlags(p)) \o U16(p.keepalive) \o Str(p.clientId)
                   \o (IF p.willFlag THEN Str(p.willTopic) \o Str(p.willMsg) ELSE <<>>)
                   \o (IF p.userFlag THEN Str(p.user) ELSE <<>>)
                   \o (IF p.passFlag THEN Str(p.pass) ELSE <<>>)

RECURSIVE Cat(_)
Cat(ss) == IF ss = <<>> THEN <<>> ELSE Head(ss) \o Cat(Tail(ss))

Encode(p) ==
    CASE p.t = "connect"     -> Fixed(1, 0, ConnectBody(p))
      [] p.t = "connack"     -> Fixed(2, 0, Byte(0) \o Byte(p.code))                       \* 3.2: session-present 0
      [] p.t = "publish"     -> Fixed(3, HdrFlags(p.h), Str(p.topic) \o (IF p.h.qos > 0 THEN U16(p.id) ELSE <<>>) \o Run(p.payload))
      [] p.t = "puback"      -> Fixed(4, 0, U16(p.id))
      [] p.t = "pubrec"      -> Fixed(5, 0, U16(p.id))
      [] p.t = "pubrel"      -> Fixed(6, HdrFlags(p.h), U16(p.id))                         \* 3.6.1: flags 0010 (qos 1)
      [] p.t = "pubcomp"     -> Fixed(7, 0, U16(p.id))
      [] p.t = "subscribe"   -> Fixed(8, HdrFlags(p.h), U16(p.id) \o Cat([i \in DOMAIN p.subs |-> Str(p.subs[i].topic) \o Byte(p.subs[i].qos)]))
      [] p.t = "suback"      -> Fixed(9, 0, U16(p.id) \o Cat([i \in DOMAIN p.codes |-> Byte(p.codes[i])]))
      [] p.t = "unsubscribe" -> Fixed(10, HdrFlags(p.h), U16(p.id) \o Cat([i \in DOMAIN p.topics |-> Str(p.topics[i])]))
      [] p.t = "unsuback"    -> Fixed(11, 0, U16(p.id))
      [] p.t = "pingreq"     -> Fixed(12, 0, <<>>)
      [] p.t = "pingresp"    -> Fixed(13, 0, <<>>)
      [] p.t = "disconnect"  -> Fixed(14, 0, <<>>)
=============================================================================
