------------------------------- MODULE Sniffer -------------------------------
(***************************************************************************)
(* The protocol-sniffing reader of listener.Conn (sniffer.Read / reset).   *)
(* The client's bytes are 1..N.  The source hands them out in chunks of    *)
(* any size (short reads), then EOF.  Matchers peek through sniffing       *)
(* sessions (reset(TRUE)); after reset(FALSE) the connection's real        *)
(* reader must see the whole stream from byte 1, each byte once.           *)
(* Code-shaped variables: buf, bufRead, bufSize, sniffing, lastErr, alloc. *)
(* Property-shaped ghost: cur = how far the current session has read.      *)
(***************************************************************************)
EXTENDS Naturals, Sequences

CONSTANTS N, MaxBuf        \* stream length, largest caller buffer

VARIABLES src,       \* bytes not yet read from the source
          buf, bufRead, bufSize, sniffing, lastErr, alloc,
          cur,       \* ghost: bytes the current session has been given
          last       \* observation: result of the last Read = [data, err]
svars == <<src, buf, bufRead, bufSize, sniffing, lastErr, alloc, cur, last>>

Stream == [i \in 1..N |-> i]
Min(a, b) == IF a < b THEN a ELSE b

SnInit == /\ src = Stream /\ buf = <<>> /\ bufRead = 0 /\ bufSize = 0 /\ sniffing = FALSE
          /\ lastErr = "nil" /\ alloc = FALSE /\ cur = 0 /\ last = [data |-> <<>>, err |-> "nil"]

(* sniffer.reset(snif) *)
Reset(snif) == /\ sniffing' = snif /\ bufRead' = 0 /\ bufSize' = Len(buf) /\ cur' = 0
               /\ last' = [data |-> <<>>, err |-> "nil"]
               /\ UNCHANGED <<src, buf, lastErr, alloc>>

(* sniffer.Read(p) with len(p) = n; the source returns k bytes (1 <= k <= n) or, when drained, (0, EOF) *)
Read(n, k) ==
    IF bufSize > bufRead
    THEN LET bn == Min(n, bufSize - bufRead) IN
         /\ last' = [data |-> SubSeq(buf, bufRead + 1, bufRead + bn), err |-> lastErr]
         /\ bufRead' = bufRead + bn /\ cur' = cur + bn
         /\ UNCHANGED <<src, buf, bufSize, sniffing, lastErr, alloc>>
    ELSE LET drop == ~sniffing /\ alloc
             b0   == IF drop THEN <<>> ELSE buf
             kk   == IF src = <<>> THEN 0 ELSE k
             data == SubSeq(src, 1, kk)
             err  == IF src = <<>> THEN "EOF" ELSE "nil"
         IN  /\ kk <= n /\ kk <= Len(src) /\ (src # <<>> => kk >= 1)
             /\ src' = SubSeq(src, kk + 1, Len(src))
             /\ buf' = IF kk > 0 /\ sniffing THEN b0 \o data ELSE b0
             /\ alloc' = IF kk > 0 /\ sniffing THEN TRUE ELSE (IF drop THEN FALSE ELSE alloc)
             /\ lastErr' = IF kk > 0 /\ sniffing THEN err ELSE lastErr
             /\ last' = [data |-> data, err |-> err]
             /\ cur' = cur + kk
             /\ UNCHANGED <<bufRead, bufSize, sniffing>>

(* C17: whatever the chunking and the peeking, every Read returns the next bytes of the client's stream, counted
   from the start of the current session; EOF only after the last byte *)
ReadOK(n) ==
    /\ Len(last.data) <= n
    /\ last.data = SubSeq(Stream, cur - Len(last.data) + 1, cur)
    /\ last.err = "EOF" => cur = N /\ last.data = <<>>
ReadsInOrder == last.data = SubSeq(Stream, cur - Len(last.data) + 1, cur) /\ (last.err = "EOF" => cur = N)
=============================================================================
