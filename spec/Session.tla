------------------------------ MODULE Session ------------------------------
(***************************************************************************)
(* One broker and its client connections (internal/broker/conn.go,         *)
(* service/pubsub/*, service/link, service/presence, provider/storage).    *)
(*                                                                         *)
(* One action per request as handled by the connection goroutine: requests *)
(* of one connection are processed sequentially and the fan-out of a       *)
(* publish is written before its acknowledgement, so each handler is one   *)
(* atomic step.  `held' is the per-connection counter map (IncrementOnce:  *)
(* at most one per ssid), `trie' the subscription index; the code's steps  *)
(* (CanSubscribe -> trie -> notify -> replay -> ack; CanUnsubscribe ->     *)
(* lookup-contains -> trie; Close = unsubscribe every counter, last will)  *)
(* are kept.  `out' is what every client receives during the step:         *)
(*   out[c].s  packets written by the handling goroutine, in order         *)
(*   out[c].a  presence notifications (published by the presence queue     *)
(*             goroutine: unordered w.r.t. s, and among one step)          *)
(* It is an observation: outside the VIEW of exhaustive configurations.    *)
(*                                                                         *)
(* Keys are abstract: KeyPerms maps a key name to its permission letters;  *)
(* every such key belongs to the broker's contract, never expires and has  *)
(* target `#/' (targets, expiry, contracts are AuthZ.tla's subject). A name*)
(* outside DOMAIN KeyPerms is a string that does not decrypt.              *)
(***************************************************************************)
EXTENDS Match, Integers, TLC

CONSTANTS Clients, KeyPerms,
          Surveyed,  \* BOOLEAN: peer brokers answer surveys (the mesh router reports established connections). Only the
                     \* message store answers surveys: history replies then draw on every broker's store (Replays)
          Home       \* [Clients -> broker name]: the broker a client connects to.  With one broker this is the plain
                     \* single-broker specification; with several, the brokers are joined by gossip (Gossip.tla) and every
                     \* step of this module is taken at gossip QUIESCENCE: the cluster then behaves like one broker,
                     \* except for what is kept per broker (the message store, the presence status)

VARIABLES conn,    \* [Clients -> {"new", "open", "closed"}]
          user,    \* [Clients -> STRING]      username given at CONNECT
          will,    \* [Clients -> will record or NoWill]
          held,    \* [Clients -> set of ssids]   the connection's counters
          trie,    \* set of <<ssid, client>>
          links,   \* [Clients -> set of link records]   (name unique per client)
          store,   \* [Brokers -> sequence of stored messages [w, p, ttl]]   (every broker has its own message store)
          out      \* observation of the last step
svars == <<conn, user, will, held, trie, links, store>>
allvars == <<svars, out>>

(* the key set used by the generation configs and the harness (cfg: KeyPerms <- StdKeyPerms) *)
StdKeyPerms == [kAll |-> {"r", "w", "s", "l", "p"}, kRO |-> {"r", "l", "p"}, kWO |-> {"w", "s"},
                kNoSL |-> {"r", "w", "p"}, kExt |-> {"r", "w", "e"}]

Brokers == { Home[c] : c \in Clients }
(* the placements used by the configurations: nb = 1: one broker; 2: c2 alone on b2 (c1 and c3 share b1: two local
   holders of one filter behind one route); 3: one client per broker *)
StdHome(nb) == [c \in Clients |-> IF nb = 1 THEN "b1" ELSE IF c = "c2" THEN "b2" ELSE IF nb = 3 /\ c = "c3" THEN "b3" ELSE "b1"]
Retention == 2592000                         \* seconds a retained message without an explicit ttl is kept (the provider's default)
CT == "ct"                                   \* the broker's contract
Ssid(w)  == <<CT>> \o w
Pres(s)  == <<"sys", "presence">> \o s       \* NewSsidForPresence
NoWill   == [on |-> FALSE]
Quiet    == [c \in Clients |-> [s |-> <<>>, a |-> {}]]

Perm(k, p) == k \in DOMAIN KeyPerms /\ p \in KeyPerms[k]
IsExt(k)   == Perm(k, "e")
IsWild(w)  == \E i \in DOMAIN w : w[i] \in {PLUS, HASH}

(* packets *)
PConnack      == [t |-> "connack", code |-> 0]
PSuback(c)    == [t |-> "suback", code |-> c]
PUnsuback     == [t |-> "unsuback"]
PPuback       == [t |-> "puback"]
PErr(c)       == [t |-> "err", code |-> c]
PPub(w, p)    == [t |-> "pub", ch |-> w, p |-> p]
PReplay(ms)   == [t |-> "replay", msgs |-> ms]                       \* set of <<w, p>>: order inside is C06's subject
PResp(api, c) == [t |-> "resp", api |-> api, code |-> c]
PLinkOK(n, w) == [t |-> "resp", api |-> "link", code |-> 200, name |-> n, ch |-> w]
PHist(ms)     == [t |-> "hist", msgs |-> ms]                         \* emitter/history/ reply: set of <<w, p>>
PStatus(w, who) == [t |-> "resp", api |-> "presence", code |-> 200, ev |-> "status", ch |-> w, who |-> who]
PPres(ev, w, c, u) == [t |-> "pres", ev |-> ev, ch |-> w, who |-> c, user |-> u]

SessionInit ==
    /\ conn  = [c \in Clients |-> "new"]
    /\ user  = [c \in Clients |-> ""]
    /\ will  = [c \in Clients |-> NoWill]
    /\ held  = [c \in Clients |-> {}]
    /\ trie  = {}
    /\ links = [c \in Clients |-> {}]
    /\ store = [b \in Brokers |-> <<>>]
    /\ out   = Quiet

---------------------------------------------------------------------------
(* history (provider/storage): the filter is a level-wise prefix of the stored channel, wildcard levels match
   anything, the first level must be literal; the newest `limit' matching messages *)
HistMatch(f, ch) == /\ Len(f) <= Len(ch) /\ Len(f) >= 2 /\ f[2] = ch[2] /\ f[2] \notin {PLUS, HASH}
                    /\ \A i \in 1..Len(f) : f[i] = ch[i] \/ (i > 2 /\ f[i] \in {PLUS, HASH})

RECURSIVE LastN(_, _, _)
LastN(seq, ssid, n) ==      \* the n newest elements of seq matching ssid, as a set of <<w, p>>
    IF n <= 0 \/ seq = <<>> THEN {}
    ELSE LET m == seq[Len(seq)] IN
         IF HistMatch(ssid, Ssid(m.w)) THEN { <<m.w, m.p>> } \cup LastN(SubSeq(seq, 1, Len(seq) - 1), ssid, n - 1)
         ELSE LastN(SubSeq(seq, 1, Len(seq) - 1), ssid, n)

(* last: -1 = option absent (default 1).  win: every stored message is "now".
   Replays = the set of replies a history query may give.  One broker (or no peer answering surveys): exactly the newest
   `limit' matching messages of the requester's broker.  With peers answering (Surveyed): the broker adds what every
   peer returns for the same query and keeps `limit' of the union by time (Frame.Limit) - the stored messages being of
   the same instant, ANY `limit' of the union (all of it if it is smaller).  Only with the emitter matcher: a survey
   is published on <<system, query, id>> and the surveyors subscribe to <<system, query>>, which the mqtt matcher
   (same depth) never matches - there no peer ever answers and the reply is the local one, after the 2 s wait. *)
LimitOf(last) == IF last < 0 THEN 1 ELSE last
Replays(b, ssid, last, win) ==
    IF win \in {"fromFuture", "untilPast"} THEN { {} }
    ELSE IF ~(Surveyed /\ Mode = "emitter") THEN { LastN(store[b], ssid, LimitOf(last)) }
    ELSE LET U == UNION { LastN(store[x], ssid, LimitOf(last)) : x \in Brokers }
             n == IF Cardinality(U) < LimitOf(last) THEN Cardinality(U) ELSE LimitOf(last)
         IN  { S \in SUBSET U : Cardinality(S) = n }
History(b, ssid, last, win) == CHOOSE S \in Replays(b, ssid, last, win) : TRUE       \* (deterministic when ~Surveyed)

---------------------------------------------------------------------------
(* shared pieces of the handlers *)

(* pubsub.Subscribe: CanSubscribe (IncrementOnce) -> trie -> presence notification to the watchers *)
DoSubscribe(c, ssid, w, st) ==     \* st = [held, trie]; returns the new pair and the watcher set
    IF ssid \in st.held[c]
    THEN [held |-> st.held, trie |-> st.trie, note |-> {}]
    ELSE LET t2 == st.trie \cup { <<ssid, c>> } IN
         [held |-> [st.held EXCEPT ![c] = @ \cup {ssid}], trie |-> t2, note |-> Direct(t2, Pres(ssid), {})]

(* pubsub.Unsubscribe: CanUnsubscribe (Decrement: last) -> lookup contains -> trie -> notification *)
DoUnsubscribe(c, ssid, st) ==
    IF ssid \notin st.held[c]
    THEN [held |-> st.held, trie |-> st.trie, note |-> {}]
    ELSE LET t2 == st.trie \ { <<ssid, c>> } IN
         [held |-> [st.held EXCEPT ![c] = @ \ {ssid}], trie |-> t2, note |-> Direct(t2, Pres(ssid), {})]

ChanOf(ssid) == SubSeq(ssid, 2, Len(ssid))                 \* words after the contract
IsPresSsid(s) == Len(s) >= 2 /\ s[1] = "sys"

---------------------------------------------------------------------------
(* CONNECT *)
Connect(c, u, w) ==
    /\ conn[c] = "new"
    /\ conn' = [conn EXCEPT ![c] = "open"]
    /\ user' = [user EXCEPT ![c] = u]
    /\ will' = [will EXCEPT ![c] = w]
    /\ out'  = [Quiet EXCEPT ![c].s = <<PConnack>>]
    /\ UNCHANGED <<held, trie, links, store>>

(* SUBSCRIBE key/w/?last=..&from.. *)
SubError(k, syn) == IF syn # "ok" THEN 400 ELSE IF ~Perm(k, "r") \/ IsExt(k) THEN 401 ELSE 0
(* OnSubscribe rewrites "#" to "#/" (paho compatibility): a filter ending in "#" needs no trailing slash *)
SubSyn(w, syn) == IF syn = "noslash" /\ Len(w) > 0 /\ w[Len(w)] = HASH THEN "ok" ELSE syn

Subscribe(c, k, w, syn, last, win) ==
    /\ conn[c] = "open"
    /\ LET e == SubError(k, SubSyn(w, syn)) IN
       IF e # 0
       THEN /\ out' = [Quiet EXCEPT ![c].s = <<PErr(e), PSuback(128)>>]
            /\ UNCHANGED svars
       ELSE \E rep \in (IF Perm(k, "l") THEN Replays(Home[c], Ssid(w), last, win) ELSE { {} }) :
            LET ssid == Ssid(w)
                r    == DoSubscribe(c, ssid, w, [held |-> held, trie |-> trie])
            IN  /\ held' = r.held /\ trie' = r.trie
                /\ out'  = [x \in Clients |->
                              [s |-> IF x = c THEN (IF rep = {} THEN <<>> ELSE <<PReplay(rep)>>) \o <<PSuback(0)>> ELSE <<>>,
                               a |-> IF x \in r.note THEN { PPres("subscribe", w, c, user[c]) } ELSE {}]]
                /\ UNCHANGED <<conn, user, will, links, store>>

(* UNSUBSCRIBE key/w/ *)
Unsubscribe(c, k, w, syn) ==
    /\ conn[c] = "open"
    /\ LET e == SubError(k, syn) IN
       IF e # 0
       THEN /\ out' = [Quiet EXCEPT ![c].s = <<PErr(e), PUnsuback>>]
            /\ UNCHANGED svars
       ELSE LET ssid == Ssid(w)
                r    == DoUnsubscribe(c, ssid, [held |-> held, trie |-> trie])
            IN  /\ held' = r.held /\ trie' = r.trie
                /\ out'  = [x \in Clients |->
                              [s |-> IF x = c THEN <<PUnsuback>> ELSE <<>>,
                               a |-> IF x \in r.note /\ ssid \in held[c] THEN { PPres("unsubscribe", w, c, user[c]) } ELSE {}]]
                /\ UNCHANGED <<conn, user, will, links, store>>

(* PUBLISH.  via = "" or a link name (topic of <= 2 characters).  A request = [k, w, syn, me0, ttl];
   ttl = -1: no ttl option, 0: an explicit ?ttl=0 (changes nothing), > 0: the requested ttl *)
LinkOf(c, n) == IF \E l \in links[c] : l.name = n THEN CHOOSE l \in links[c] : l.name = n ELSE [name |-> n, k |-> "", w |-> <<>>, syn |-> "empty", me0 |-> FALSE, ttl |-> -1]

PubError(k, w, syn) ==
    IF syn # "ok" THEN 400 ELSE IF IsWild(w) THEN 403 ELSE IF ~Perm(k, "w") \/ IsExt(k) THEN 401 ELSE 0

Publish(c, req, via, retain, qos, p) ==
    /\ conn[c] = "open"
    /\ LET r   == IF via = "" THEN req ELSE LinkOf(c, via)
           e   == PubError(r.k, r.w, r.syn)
           ack == IF qos > 0 THEN <<PPuback>> ELSE <<>>
       IN
       IF e # 0
       THEN /\ out' = [Quiet EXCEPT ![c].s = <<PErr(e)>> \o ack]
            /\ UNCHANGED svars
       ELSE LET stored == (retain \/ r.ttl > 0) /\ Perm(r.k, "s")
                rcv    == Direct(trie, Ssid(r.w), IF r.me0 THEN {c} ELSE {})
            IN  /\ store' = IF stored THEN [store EXCEPT ![Home[c]] = Append(@, [w |-> r.w, p |-> p, ttl |-> IF r.ttl > 0 THEN r.ttl ELSE Retention])] ELSE store
                /\ out'   = [x \in Clients |->
                               [s |-> (IF x \in rcv THEN <<PPub(r.w, p)>> ELSE <<>>) \o (IF x = c THEN ack ELSE <<>>),
                                a |-> {}]]
                /\ UNCHANGED <<conn, user, will, held, trie, links>>

(* emitter/link/ {name, key, channel, subscribe}.  nameOK: 1-2 alphanumerics *)
Link(c, n, nameOK, req, sub, qos) ==
    /\ conn[c] = "open"
    /\ LET ack == IF qos > 0 THEN <<PPuback>> ELSE <<>> IN
       IF ~nameOK \/ req.syn # "ok"
       THEN /\ out' = [Quiet EXCEPT ![c].s = <<PResp("link", 400)>> \o ack]
            /\ UNCHANGED svars
       ELSE LET l  == [name |-> n, k |-> req.k, w |-> req.w, syn |-> "ok", me0 |-> req.me0, ttl |-> req.ttl]
                go == sub /\ Perm(req.k, "r")
                r  == IF go THEN DoSubscribe(c, Ssid(req.w), req.w, [held |-> held, trie |-> trie])
                            ELSE [held |-> held, trie |-> trie, note |-> {}]
            IN  /\ links' = [links EXCEPT ![c] = { x \in @ : x.name # n } \cup {l}]
                /\ held' = r.held /\ trie' = r.trie
                /\ out'  = [x \in Clients |->
                              [s |-> IF x = c THEN <<PLinkOK(n, req.w)>> \o ack ELSE <<>>,
                               a |-> IF x \in r.note THEN { PPres("subscribe", req.w, c, user[c]) } ELSE {}]]
                /\ UNCHANGED <<conn, user, will, store>>

(* emitter/presence/ {key, channel, status, changes}.  chg \in {"none", "on", "off"} *)
Presence(c, k, w, syn, status, chg, qos) ==
    /\ conn[c] = "open"
    /\ LET ack == IF qos > 0 THEN <<PPuback>> ELSE <<>>
           e   == IF syn # "ok" THEN 400 ELSE IF ~Perm(k, "p") \/ IsExt(k) THEN 401 ELSE 0
       IN
       IF e # 0
       THEN /\ out' = [Quiet EXCEPT ![c].s = <<PResp("presence", e)>> \o ack]
            /\ UNCHANGED svars
       ELSE LET ssid == Ssid(w)
                st0  == [held |-> held, trie |-> trie]
                r    == CASE chg = "on"  -> DoSubscribe(c, Pres(ssid), w, st0)
                          [] chg = "off" -> DoUnsubscribe(c, Pres(ssid), st0)
                          [] OTHER       -> [held |-> held, trie |-> trie, note |-> {}]
                \* the status lists the connections ON THE REQUESTER'S BROKER (C18: "the connections on that broker").  The
                \* code also surveys the cluster, but broker.NewService registers only the message store as a survey
                \* handler (surveyor.HandleFunc(s.storage)): no peer ever answers a "presence" query, so with or without
                \* established peer connections the reply holds the local connections only - after the survey's 1 s wait
                who  == { <<x, user[x]>> : x \in { y \in Direct(r.trie, ssid, {}) : Home[y] = Home[c] } }
            IN  /\ held' = r.held /\ trie' = r.trie
                /\ out'  = [Quiet EXCEPT ![c].s = <<IF status THEN PStatus(w, who) ELSE PResp("presence", 200)>> \o ack]
                /\ UNCHANGED <<conn, user, will, links, store>>

(* emitter/history/ {key, channel: "key/channel/?last=..&from=.."} (service/history): the last N stored matching
   messages of the requester's broker, needs the load permission *)
HistoryReq(c, k, w, syn, last, win, qos) ==
    /\ conn[c] = "open"
    /\ LET ack == IF qos > 0 THEN <<PPuback>> ELSE <<>>
           e   == IF syn # "ok" THEN 400 ELSE IF ~Perm(k, "l") THEN 401 ELSE 0
       IN  /\ \E rep \in (IF e # 0 THEN { {} } ELSE Replays(Home[c], Ssid(w), last, win)) :
                  out' = [Quiet EXCEPT ![c].s = <<IF e # 0 THEN PResp("history", e) ELSE PHist(rep)>> \o ack]
           /\ UNCHANGED svars

(* Any ending: DISCONNECT, the socket closing (at a packet boundary or inside a packet), a malformed packet.
   Conn.Close: unsubscribe every counter (notifications), then the last will. *)
RECURSIVE CloseAll(_, _, _)
CloseAll(c, todo, st) ==    \* st = [held, trie, notes: set of <<watcher, packet>>]
    IF todo = {} THEN st
    ELSE LET s  == CHOOSE x \in todo : TRUE
             r  == DoUnsubscribe(c, s, [held |-> st.held, trie |-> st.trie])
             ns == IF IsPresSsid(s) THEN {}
                   ELSE { <<x, PPres("unsubscribe", ChanOf(s), c, user[c])>> : x \in r.note }
         IN  CloseAll(c, todo \ {s}, [held |-> r.held, trie |-> r.trie, notes |-> st.notes \cup ns])

WillFires(wl) == wl.on /\ wl.syn = "ok" /\ ~IsWild(wl.w) /\ Perm(wl.k, "w") /\ ~IsExt(wl.k)

End(c) ==
    /\ conn[c] = "open"
    /\ LET r   == CloseAll(c, held[c], [held |-> held, trie |-> trie, notes |-> {}])
           wl  == will[c]
           f   == WillFires(wl)
           rcv == IF f THEN Direct(r.trie, Ssid(wl.w), {}) ELSE {}
       IN  /\ conn'  = [conn EXCEPT ![c] = "closed"]
           /\ held'  = r.held /\ trie' = r.trie
           /\ store' = IF f /\ wl.retain /\ Perm(wl.k, "s") THEN [store EXCEPT ![Home[c]] = Append(@, [w |-> wl.w, p |-> wl.p, ttl |-> Retention])] ELSE store
           /\ out'   = [x \in Clients |->
                          IF x = c THEN [s |-> <<>>, a |-> {}]       \* whatever is written to the dying socket is not observable
                          ELSE [s |-> IF x \in rcv THEN <<PPub(wl.w, wl.p)>> ELSE <<>>,
                                a |-> { n[2] : n \in { m \in r.notes : m[1] = x } }]]
           /\ UNCHANGED <<user, will, links>>

(* The broker process stops and a new one starts on the same directory (no connection is open: every client has ended
   or not connected yet).  With the disk-backed store the history survives; nothing else existed. *)
Restart ==
    /\ \A c \in Clients : conn[c] # "open"
    /\ out' = Quiet
    /\ UNCHANGED svars

(* C09: a hostile or malformed input on connection c.
   closing classes (malformed packets: reserved type, oversize or 5-byte remaining length, string length beyond the
   body, empty body, garbage): the protocol error ends the connection - exactly End(c), nothing else changes.
   surviving classes (well-formed requests with extreme or ill-typed parameters): either the request is answered
   (with an error or an ordinary reply) and NOTHING changes, or the connection is closed as above; no other
   connection notices anything in either case. *)
HostileClosing == {"type0", "type15", "oversize", "len5", "strlen", "garbage",
                   "empty-connect", "empty-connack", "empty-publish", "empty-puback", "empty-subscribe", "empty-suback",
                   "empty-unsubscribe", "empty-unsuback", "empty-pubrel", "short-connect",
                   "sub-deep-drop", "sub-plus-deep-drop"}      \* (a held subscription with very many levels when the socket closes)
HostileSurviving == {"sub-last-huge", "sub-last-max", "history-last-huge", "keygen-illtyped", "presence-illtyped",
                     "link-longname", "pub-ttl-huge", "pub-window-extreme", "api-unknown", "ping-flood", "pub-many-options",
                     \* well-formed requests with extreme depth / counts / lengths, each undone by the requester itself
                     \* (subscribe + unsubscribe, watch + unwatch): nothing remains, nobody else notices
                     "sub-deep", "sub-plus-deep", "sub-mixed-deep", "sub-many-topics", "sub-long-level", "pub-deep", "presence-plus-deep"}
Hostile(c, cls, closed) ==
    /\ conn[c] = "open"
    /\ IF cls \in HostileClosing \/ closed
       THEN End(c)
       ELSE IF cls \in {"sub-last-huge", "sub-last-max"}
       THEN Subscribe(c, "kAll", <<"a">>, "ok", 1000000000, "none")      \* an ordinary subscription asking for "everything"
       ELSE /\ out' = [Quiet EXCEPT ![c] = [s |-> <<[t |-> "any"]>>, a |-> {}]]     \* c's own replies are not prescribed
            /\ UNCHANGED svars

(* C09: a connection that never sends CONNECT - it says nothing, pings, subscribes, sends a truncated CONNECT or garbage -
   and goes away.  It is none of the model's clients: nobody notices anything, nothing remains. *)
Stranger == out' = Quiet /\ UNCHANGED svars

(* C09, cluster port: a broken gossip / frame payload is rejected; no client notices anything *)
ClusterHostile == out' = Quiet /\ UNCHANGED svars

---------------------------------------------------------------------------
(* C02 / C08 / C18 at design level *)

(* the index holds exactly the acknowledged, not yet removed subscriptions *)
TrieIsHeld == trie = UNION { { <<s, c>> : s \in held[c] } : c \in Clients }
(* a connection that ended leaves nothing behind *)
NothingLeftBehind == \A c \in Clients : conn[c] # "open" => held[c] = {} /\ ~\E e \in trie : e[2] = c
(* nobody receives anything on a closed connection *)
ClosedIsSilent == \A c \in Clients : conn[c] = "closed" => out[c].s = <<>> /\ out[c].a = {}
(* every delivery of a message goes to a holder of a matching subscription (C02, "only if") *)
DeliveriesJustified ==
    \A c \in Clients : \A i \in DOMAIN out[c].s :
        out[c].s[i].t = "pub" => \E s \in held[c] : ~IsPresSsid(s) /\ Matches(s, Ssid(out[c].s[i].ch))
=============================================================================
