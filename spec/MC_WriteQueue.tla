---------------------------- MODULE MC_WriteQueue ----------------------------
EXTENDS WriteQueue, Json, TLC
CONSTANT Gen
VARIABLE hist
mvars == <<wvars, hist>>
View == wvars
Obs == [pc |-> pc, idx |-> idx, queue |-> queue, sock |-> sock, lock |-> lock]
MCInit == WQInit /\ hist = <<>>
MCNext == \E t \in Threads, lim \in BOOLEAN :
            /\ Step(t, lim)
            /\ Gen = "edges" => PrintT(<<"EDGE", ToJson([a |-> [n |-> "step", t |-> t, lim |-> lim], f |-> Obs,
                      t |-> [pc |-> pc', idx |-> idx', queue |-> queue', sock |-> sock', lock |-> lock']])>>)
            /\ hist' = IF Gen = "sim" THEN Append(hist, [n |-> "step", t |-> t, lim |-> lim]) ELSE hist
Dump == Gen # "sim" \/ Len(hist) < 2 \/ PrintT(<<"BEH", ToJson(hist)>>)
=============================================================================
