------------------------------ MODULE Ban_Trace ------------------------------
(* {"e":"reset"} {"e":"ban"|"unban","b":..,"k":..,"status":200} {"e":"use","b":..,"k":..,"op":..,"ok":bool}
   {"e":"restart","b":..} {"e":"gossip","from":..,"to":..} *)
EXTENDS Ban, TraceLib
VARIABLE l
vars == <<bvars, l>>
Ev == Log[l]
IsEvent(e) == l <= Len(Log) /\ Log[l].e = e /\ l' = l + 1

TrReset   == IsEvent("reset")   /\ ban' = [b \in Brokers |-> [k \in BanKeys |-> Zero]] /\ clock' = 1
TrBan     == IsEvent("ban")     /\ Ev.status = 200 /\ DoBan(Ev.b, Ev.k)
TrUnban   == IsEvent("unban")   /\ Ev.status = 200 /\ DoUnban(Ev.b, Ev.k)
TrUse     == IsEvent("use")     /\ Ev.ok = UseAllowed(Ev.b, Ev.k) /\ Use(Ev.b, Ev.k)      \* refused iff banned, at once
TrRestart == IsEvent("restart") /\ Restart(Ev.b)
TrGossip  == IsEvent("gossip")  /\ Gossip(Ev.from, Ev.to)

TraceInit == BanInit /\ l = 1 /\ MarkInit
TraceNext == TrReset \/ TrBan \/ TrUnban \/ TrUse \/ TrRestart \/ TrGossip
MarkC     == Mark(l)
=============================================================================
