------------------------------ MODULE Ban_Trace ------------------------------
(* {"e":"reset"} {"e":"ban"|"unban","b":..,"k":..,"status":200} {"e":"use","b":..,"k":..,"op":..,"ok":bool}
   {"e":"restart","b":..} {"e":"gossip","from":..,"to":..} *)
EXTENDS Ban, TraceLib
VARIABLE l
vars == <<bvars, l>>
Ev == Log[l]
IsEvent(e) == l <= Len(Log) /\ Log[l].e = e /\ l' = l + 1

(* every event also carries state = {broker: {key: accepted now}} (Service.Authorize asked directly after the step):
   the ban state of every key on every broker is observed after EVERY step, not only when the behaviour uses the key *)
StateOK == \A b \in Brokers, k \in BanKeys : Ev.state[b][k] = ~IsBanned(ban'[b][k])
TrReset   == IsEvent("reset")   /\ ban' = [b \in Brokers |-> [k \in BanKeys |-> Zero]] /\ clock' = 1
TrBan     == IsEvent("ban")     /\ Ev.status = 200 /\ DoBan(Ev.b, Ev.k) /\ StateOK
TrUnban   == IsEvent("unban")   /\ Ev.status = 200 /\ DoUnban(Ev.b, Ev.k) /\ StateOK
(* a ban / unban request that was not acknowledged (a broker without cluster section has no ban state): nothing happens *)
TrRefused == IsEvent("ban-refused") /\ UNCHANGED bvars /\ StateOK
TrUse     == IsEvent("use")     /\ Ev.ok = UseAllowed(Ev.b, Ev.k) /\ Use(Ev.b, Ev.k) /\ StateOK      \* refused iff banned, at once
TrRestart == IsEvent("restart") /\ Restart(Ev.b) /\ StateOK
TrGossip  == IsEvent("gossip")  /\ Gossip(Ev.from, Ev.to) /\ StateOK

TraceInit == BanInit /\ l = 1 /\ MarkInit
TraceNext == TrRefused \/ TrReset \/ TrBan \/ TrUnban \/ TrUse \/ TrRestart \/ TrGossip
MarkC     == Mark(l)
=============================================================================
