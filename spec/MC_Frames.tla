------------------------------ MODULE MC_Frames ------------------------------
(* Enumerates the split grid: all frames of <= 4 messages with sizes around the bound. *)
EXTENDS Naturals, Sequences, FiniteSets, Json, TLC
CONSTANT Tier
Bound == 1000
Sizes == {50, Bound - 21, Bound - 20, Bound - 1, Bound, Bound + 1, 400}
Frames == UNION { [1..n -> Sizes] : n \in 0..(IF Tier = "quick" THEN 3 ELSE 4) }
ASSUME \A f \in Frames : PrintT(<<"FRAME", ToJson([sizes |-> f, bound |-> Bound])>>)
ASSUME PrintT(<<"COUNT", ToJson([n |-> Cardinality(Frames)])>>)
VARIABLE x
Init == x = 0
Next == UNCHANGED x
=============================================================================
