----------------------------- MODULE MC_Sniffer -----------------------------
EXTENDS Sniffer, Json, TLC
CONSTANTS MaxSessions, Gen
VARIABLES sessions, hist
mvars == <<svars, sessions, hist>>
View == <<svars, sessions>>
Obs == [src |-> src, buf |-> buf, bufRead |-> bufRead, bufSize |-> bufSize, sniffing |-> sniffing, lastErr |-> lastErr, alloc |-> alloc, sessions |-> sessions]
Emit(a) == /\ Gen = "edges" => PrintT(<<"EDGE", ToJson([a |-> a, f |-> Obs, t |-> [src |-> src', buf |-> buf', bufRead |-> bufRead',
                      bufSize |-> bufSize', sniffing |-> sniffing', lastErr |-> lastErr', alloc |-> alloc', sessions |-> sessions']])>>)
           /\ hist' = IF Gen = "sim" THEN Append(hist, a) ELSE hist
MCInit == SnInit /\ sessions = 0 /\ hist = <<>>
(* the listener starts a sniffing session per matcher, then hands the connection over (reset FALSE) once *)
MCNext == \/ /\ sessions < MaxSessions /\ (sniffing \/ sessions = 0)
             /\ Reset(TRUE) /\ sessions' = sessions + 1 /\ Emit([n |-> "reset", snif |-> TRUE])
          \/ /\ sniffing /\ Reset(FALSE) /\ sessions' = MaxSessions + 1 /\ Emit([n |-> "reset", snif |-> FALSE])
          \/ \E n \in 1..MaxBuf, k \in 1..MaxBuf :
               /\ sessions > 0
               /\ (bufSize > bufRead => k = 1)                       \* k is irrelevant when served from the buffer
               /\ Read(n, k) /\ UNCHANGED sessions /\ Emit([n |-> "read", size |-> n, k |-> k])
Dump == Gen # "sim" \/ Len(hist) < 2 \/ PrintT(<<"BEH", ToJson(hist)>>)
=============================================================================
