------------------------------ MODULE Contracts ------------------------------
(***************************************************************************)
(* "belongs to an allowed contract with the same signature and master id"  *)
(* when contracts live in a contract service (provider/contract:           *)
(* HTTPContractProvider).  The service holds a table id -> (state, sign,   *)
(* master) that changes over time; the broker fetches a contract the first *)
(* time a key of it is presented, keeps it in a cache and re-fetches every *)
(* cached contract on a timer.  Between two refreshes the broker may act   *)
(* on what it fetched last; after a refresh it acts on the table.          *)
(***************************************************************************)
EXTENDS Naturals, FiniteSets

CONSTANTS Ids, Signs, Masters

Absent == [state |-> "absent", sign |-> 0, master |-> 0]
Recs   == [state : {"allowed", "refused"}, sign : Signs, master : Masters]

VARIABLES table,    \* [Ids -> Recs \cup {Absent}]   what the contract service answers
          cache,    \* [Ids -> Recs \cup {Absent}]   what the broker fetched last (Absent = not cached)
          fresh     \* TRUE right after a refresh (nothing changed at the service since)
cvars == <<table, cache, fresh>>

CInit == table = [i \in Ids |-> Absent] /\ cache = [i \in Ids |-> Absent] /\ fresh = TRUE

(* the operator of the contract service creates / changes / refuses / removes a contract *)
Set(i, r) == table' = [table EXCEPT ![i] = r] /\ fresh' = FALSE /\ UNCHANGED cache

(* a key (contract i, signature s, master m) is presented: Get = the cached contract, fetched now if there is none
   (a contract the service does not know is not cached); Validate = allowed, same signature, same master id *)
CacheAfterUse(i) == IF cache[i] = Absent THEN [cache EXCEPT ![i] = table[i]] ELSE cache
Verdict(i, s, m) == LET c == CacheAfterUse(i)[i] IN c.state = "allowed" /\ c.sign = s /\ c.master = m
Use(i, s, m) == cache' = CacheAfterUse(i) /\ UNCHANGED <<table, fresh>>

(* the timer: every cached contract is fetched again (one the service no longer knows keeps its old record) *)
Refresh == /\ cache' = [i \in Ids |-> IF cache[i] # Absent /\ table[i] # Absent THEN table[i] ELSE cache[i]]
           /\ fresh' = TRUE /\ UNCHANGED table

(* C03: after a refresh the verdict for every contract the service knows is the one its table prescribes *)
FreshIsExact == fresh => \A i \in Ids : table[i] # Absent => \A s \in Signs, m \in Masters :
                    Verdict(i, s, m) = (table[i].state = "allowed" /\ table[i].sign = s /\ table[i].master = m)
=============================================================================
