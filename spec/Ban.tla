--------------------------------- MODULE Ban ---------------------------------
(***************************************************************************)
(* Key bans (service/keyban, broker.Service.Authorize, the durable "ban"    *)
(* subset of the replicated state, Swarm.OnGossip).                        *)
(* Two brokers; each holds an LWW entry (a, d) per key, written with a     *)
(* strictly increasing clock (the real clock's normal behaviour; ties and  *)
(* regressions are C04's subject).  The state of a broker survives         *)
(* Restart because the ban subset is on disk.                              *)
(***************************************************************************)
EXTENDS Naturals, Sequences, FiniteSets

CONSTANTS Brokers, BanKeys

VARIABLES ban,     \* ban[b][k] = [a, d]
          clock
bvars == <<ban, clock>>

Zero == [a |-> 0, d |-> 0]
IsBanned(v) == v.a # 0 /\ v.a >= v.d
Max(x, y) == IF x > y THEN x ELSE y

BanInit == ban = [b \in Brokers |-> [k \in BanKeys |-> Zero]] /\ clock = 1

(* emitter/keyban/ {banned: true}: Notify(ban, true) only if not already contained *)
DoBan(b, k) ==
    /\ ban'   = IF IsBanned(ban[b][k]) THEN ban ELSE [ban EXCEPT ![b][k].a = clock]
    /\ clock' = clock + 1
DoUnban(b, k) ==
    /\ ban'   = IF IsBanned(ban[b][k]) THEN [ban EXCEPT ![b][k].d = clock] ELSE ban
    /\ clock' = clock + 1
(* presenting the key: allowed iff not banned on that broker *)
UseAllowed(b, k) == ~IsBanned(ban[b][k])
Use(b, k) == UNCHANGED bvars
(* the broker stops and starts again on the same state directory *)
Restart(b) == UNCHANGED bvars
(* full-state gossip from b1 merged into b2 *)
Gossip(b1, b2) ==
    /\ b1 # b2
    /\ ban' = [ban EXCEPT ![b2] = [k \in BanKeys |-> [a |-> Max(@[k].a, ban[b1][k].a), d |-> Max(@[k].d, ban[b1][k].d)]]]
    /\ UNCHANGED clock

(* C14 at design level: a ban acknowledged on b is in force on b until an unban is acknowledged there; after gossip
   from b it is in force on the other broker unless that broker holds a later unban *)
AckedBanHolds == \A b \in Brokers, k \in BanKeys : (ban[b][k].a > ban[b][k].d) => ~UseAllowed(b, k)
=============================================================================
