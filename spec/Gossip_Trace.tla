----------------------------- MODULE Gossip_Trace -----------------------------
(* Validates schedules replayed on real brokers (broker.Service + cluster.Swarm) whose gossip sender is the transcribed
   mesh sender.  Clock readings of the real code come from one strictly increasing counter, so only the ORDER of
   times is compared: a payload is abstracted to, per key, (has an add time, has a remove time, reads as added).
     {"e":"reset"}
     {"e":"sub"|"unsub","b":..,"s":..}      {"e":"periodic","b":..}
     {"e":"pick","b":..,"to":..,"kind":..,"p":{key:{"a":bool,"d":bool,"on":bool}}}
     {"e":"deliver","b":..,"to":..}
   every event also carries  routes = {broker:[[peer,ssid],..]} (remote entries of each real trie),
   active = {broker:[[owner,ssid],..]} (subscription events the real replica reports active) and
   coalesced = number of merges into non-empty sender buckets so far. *)
EXTENDS Gossip, TraceLib
VARIABLE l
Ev == Log[l]
IsEvent(e) == l <= Len(Log) /\ Log[l].e = e /\ l' = l + 1

KeyName(k) == k[1] \o "/" \o k[2]
Abs(p) == [k \in Keys |-> [a |-> p[k].a > 0, d |-> p[k].d > 0, on |-> IsAdded(p[k])]]
PayloadOK(ev, p) == \A k \in Keys : LET x == ev.p[KeyName(k)] y == Abs(p)[k] IN x.a = y.a /\ x.d = y.d /\ x.on = y.on

(* C05, at quiescence: each real trie forwards to exactly the brokers with a live local subscriber; the replicas agree *)
ObsOK(ev) ==
    Quiescent' =>
        /\ \A b \in Brokers : ToSet(ev.routes[b]) = routes'[b]
        /\ \A b \in Brokers : ToSet(ev.active[b]) = { k \in Keys : IsAdded(st'[b][k]) }

TrReset == IsEvent("reset") /\ loc' = [b \in Brokers |-> {}] /\ st' = [b \in Brokers |-> Nothing] /\ routes' = [b \in Brokers |-> {}]
              /\ bc' = [b \in Brokers |-> [n \in Brokers |-> Nothing]] /\ gs' = [b \in Brokers |-> [n \in Brokers |-> Nothing]]
              /\ live' = [b \in Brokers |-> [n \in Brokers |-> FALSE]]
              /\ wire' = [b \in Brokers |-> [n \in Brokers |-> <<>>]] /\ now' = 1 /\ merged' = 0
TrSub     == IsEvent("sub")      /\ ClientSub(Ev.b, Ev.s)   /\ ObsOK(Ev)
TrUnsub   == IsEvent("unsub")    /\ ClientUnsub(Ev.b, Ev.s) /\ ObsOK(Ev)
TrPer     == IsEvent("periodic") /\ Periodic(Ev.b)          /\ ObsOK(Ev)
(* C13: what is put on the wire carries every update queued on the link (the model coalesces by union) *)
TrPick    == IsEvent("pick") /\ Pick(Ev.b, Ev.to)
                /\ LET m == wire'[Ev.b][Ev.to][Len(wire'[Ev.b][Ev.to])] IN Ev.kind = m.kind /\ PayloadOK(Ev, m.p)
                /\ ObsOK(Ev)
TrDeliver == IsEvent("deliver")  /\ Deliver(Ev.b, Ev.to)    /\ ObsOK(Ev)
(* {"e":"probe","b":..,"s":..,"fwd":[brokers that were sent a frame],"got":[[broker, copies received],..]}:
   a real publish on broker b; at quiescence it must be forwarded to and received by exactly the brokers with a live
   subscriber, one copy each *)
TrProbe   == IsEvent("probe") /\ UNCHANGED gvars
                /\ (Quiescent => /\ ToSet(Ev.fwd) = { p \in Others(Ev.b) : Ev.s \in loc[p] }
                                 /\ ToSet(Ev.got) = { <<p, 1>> : p \in { q \in Brokers : Ev.s \in loc[q] } })

TraceInit == GInit /\ l = 1 /\ MarkInit
TraceNext == TrReset \/ TrSub \/ TrUnsub \/ TrPer \/ TrPick \/ TrDeliver \/ TrProbe
MarkC == Mark(l)
TraceInv == RoutingAtQuiescence /\ ForwardingAtQuiescence
=============================================================================
