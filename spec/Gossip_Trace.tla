----------------------------- MODULE Gossip_Trace -----------------------------
(* Validates schedules replayed on real brokers (broker.Service + cluster.Swarm) whose gossip sender is the transcribed
   mesh sender.  Clock readings of the real code come from one strictly increasing counter, so only the ORDER of
   times is compared: a payload is abstracted to, per key, (has an add time, has a remove time, reads as added).
     {"e":"reset"}
     {"e":"sub"|"unsub","b":..,"s":..}      {"e":"periodic","b":..}
     {"e":"pick","b":..,"to":..,"kind":..,"p":{key:{"a":bool,"d":bool,"on":bool}}}
     {"e":"deliver","b":..,"to":..}
   every event also carries  routes = {broker:[[peer,ssid],..]} (remote entries of each real trie),
   active = {broker:[[owner,ssid],..]} (subscription events the real replica reports active) and
   coalesced = number of merges into non-empty sender buckets so far, members = {broker:[peers in its member list]}.
     {"e":"linkdown"|"linkup"|"gc","b":..,"to":..}   gc = the router's garbage-collection callback for peer `to' on b
     {"e":"restart","b":..}                          the broker object is closed and a new one started under the same name
   The constant GcAsCode selects the intended design (FALSE) or what the code does around garbage collection
   (TRUE, listed finding gc_peer_return): a schedule with a gc step that the intended design rejects is re-validated against the deviation, so that
   only behaviour the listed finding explains is attributed to it. *)
EXTENDS Gossip, TraceLib
VARIABLE l
Ev == Log[l]
IsEvent(e) == l <= Len(Log) /\ Log[l].e = e /\ l' = l + 1

KeyName(k) == k[1] \o "." \o k[2] \o "/" \o k[3]
Abs(p) == [k \in Keys |-> [a |-> p[k].a > 0, d |-> p[k].d > 0, on |-> IsAdded(p[k])]]
PayloadOK(ev, p) == \A k \in Keys : LET x == ev.p[KeyName(k)] y == Abs(p)[k] IN x.a = y.a /\ x.d = y.d /\ x.on = y.on

(* C05, at quiescence: each real trie forwards to exactly the brokers with a live local subscriber; the replicas agree *)
ObsOK(ev) ==
    Quiescent' =>
        /\ \A b \in Brokers : ToSet(ev.routes[b]) = routes'[b]
        /\ \A b \in Brokers : ToSet(ev.active[b]) = { <<k[1], k[3]>> : k \in { x \in Keys : IsAdded(st'[b][x]) } }
MembersOK(ev) == GcAsCode => \A b \in Brokers : ToSet(ev.members[b]) = members'[b]

TrReset == IsEvent("reset") /\ loc' = [b \in Brokers |-> {}] /\ st' = [b \in Brokers |-> Nothing] /\ routes' = [b \in Brokers |-> {}]
              /\ bc' = [b \in Brokers |-> [n \in Brokers |-> Nothing]] /\ gs' = [b \in Brokers |-> [n \in Brokers |-> Nothing]]
              /\ live' = [b \in Brokers |-> [n \in Brokers |-> "none"]]
              /\ up' = [b \in Brokers |-> [n \in Brokers |-> b # n]] /\ members' = [b \in Brokers |-> {}] /\ fresh' = {}
              /\ wire' = [b \in Brokers |-> [n \in Brokers |-> <<>>]] /\ now' = 1 /\ merged' = 0
TrSub     == IsEvent("sub")      /\ ClientSub(Ev.b, Ev.s)   /\ ObsOK(Ev)
TrUnsub   == IsEvent("unsub")    /\ ClientUnsub(Ev.b, Ev.s) /\ ObsOK(Ev)
TrPer     == IsEvent("periodic") /\ Periodic(Ev.b)          /\ ObsOK(Ev)
(* C13: what is put on the wire carries every update queued on the link (the model coalesces by union) *)
TrPick    == IsEvent("pick") /\ Pick(Ev.b, Ev.to)
                /\ LET m == wire'[Ev.b][Ev.to][Len(wire'[Ev.b][Ev.to])] IN Ev.kind = m.kind /\ PayloadOK(Ev, m.p)
                /\ ObsOK(Ev)
TrDeliver == IsEvent("deliver")  /\ Deliver(Ev.b, Ev.to)    /\ ObsOK(Ev) /\ MembersOK(Ev)
TrDown    == IsEvent("linkdown") /\ LinkDown(Ev.b, Ev.to)   /\ ObsOK(Ev)
TrUp      == IsEvent("linkup")   /\ LinkUp(Ev.b, Ev.to)     /\ ObsOK(Ev)
(* the callback does nothing for a peer that is not in the member list *)
TrGC      == IsEvent("gc") /\ (IF Ev.to \in members[Ev.b] THEN PeerGC(Ev.b, Ev.to) ELSE UNCHANGED gvars) /\ ObsOK(Ev) /\ MembersOK(Ev)
(* {"e":"probe","b":..,"s":..,"fwd":[brokers that were sent a frame],"got":[[broker, copies received],..]}:
   a real publish on broker b; at quiescence it must be forwarded to and received by exactly the brokers with a live
   subscriber, one copy each *)
TrProbe   == IsEvent("probe") /\ UNCHANGED gvars
                /\ (Quiescent => /\ ToSet(Ev.fwd) = ForwardedTo(Ev.b, Ev.s)
                                 /\ ToSet(Ev.got) = { <<p, 1>> : p \in ReceivedBy(Ev.b, Ev.s) })

TrRestart == IsEvent("restart") /\ Restart(Ev.b) /\ ObsOK(Ev) /\ MembersOK(Ev)
TraceInit == GInit /\ l = 1 /\ MarkInit
TraceNext == TrReset \/ TrSub \/ TrUnsub \/ TrPer \/ TrPick \/ TrDeliver \/ TrProbe \/ TrDown \/ TrUp \/ TrGC \/ TrRestart
MarkC == Mark(l)
(* under the intended design every reached model state satisfies the property: conforming to it is satisfying C05 *)
TraceInv == GcAsCode \/ (RoutingAtQuiescence /\ ForwardingAtQuiescence)
=============================================================================
