-------------------------- MODULE WsTransport_Trace --------------------------
(* {"e":"feed","frames":[{kind,data}..]}  {"e":"read","size":n,"eof":bool,"data":[..],"err":"nil"|"closed"}
   {"e":"write","p":[..],"msgs":[[..],..]}   msgs = the binary messages the fake peer has received so far *)
EXTENDS WsTransport, TraceLib
VARIABLE l
Ev == Log[l]
IsEvent(e) == l <= Len(Log) /\ Log[l].e = e /\ l' = l + 1
TrFeed  == IsEvent("feed") /\ frames' = Ev.frames /\ reader' = <<>> /\ open' = FALSE /\ cur' = 0
              /\ last' = [data |-> <<>>, err |-> "nil"] /\ sent' = <<>>
TrRead  == IsEvent("read") /\ Read(Ev.size, Ev.eof) /\ last'.data = Ev.data /\ last'.err = Ev.err
TrWrite == IsEvent("write") /\ Write(Ev.p) /\ sent' = Ev.msgs
TraceInit == WsInit(<<>>) /\ l = 1 /\ MarkInit
TraceNext == TrFeed \/ TrRead \/ TrWrite
MarkC == Mark(l)
TraceInv == ReadsInOrder
=============================================================================
