--------------------------- MODULE Contracts_Trace ---------------------------
(* {"e":"reset"} {"e":"set","id":n,"rec":{state,sign,master}} {"e":"refresh"}
   {"e":"use","id":n,"sign":n,"master":n,"ok":bool}   ok = what the real Service.Authorize answered for a key of that
   contract / signature / master id that is otherwise perfect (all permissions, target #/, no expiry) *)
EXTENDS Contracts, TraceLib
VARIABLE l
Ev == Log[l]
IsEvent(e) == l <= Len(Log) /\ Log[l].e = e /\ l' = l + 1
TrReset   == IsEvent("reset")   /\ table' = [i \in Ids |-> Absent] /\ cache' = [i \in Ids |-> Absent] /\ fresh' = TRUE
TrSet     == IsEvent("set")     /\ Set(Ev.id, Ev.rec)
(* mint = a master key of that contract / signature / master id was accepted by keygen.CreateKey (C11: "only a valid,
   unexpired master key of an allowed contract can mint keys") *)
TrUse     == IsEvent("use")     /\ Use(Ev.id, Ev.sign, Ev.master) /\ Ev.ok = Verdict(Ev.id, Ev.sign, Ev.master)
                                /\ (Has(Ev, "mint") => Ev.mint = Verdict(Ev.id, Ev.sign, Ev.master))
TrRefresh == IsEvent("refresh") /\ Refresh
TraceInit == CInit /\ l = 1 /\ MarkInit
TraceNext == TrReset \/ TrSet \/ TrUse \/ TrRefresh
MarkC == Mark(l)
TraceInv == FreshIsExact
=============================================================================
