------------------------------ MODULE MC_Trie ------------------------------
(* Exhaustive / generation wrapper for Trie.tla.  Size "S" = quick, "L" = thorough. *)
EXTENDS Trie, Json

CONSTANTS Size, MaxS, Export

Subs  == IF Size = "S" THEN {"s1", "s2"} ELSE {"s1", "s2", "s3"}
Depth == IF Size = "S" THEN 2 ELSE 3
Words == {"a", "b", PLUS} \cup (IF Mode = "mqtt" THEN {HASH} ELSE {})
Lits  == {"a", "b"}

SeqsUpTo(W, k) == UNION { [1..n -> W] : n \in 1..k }

ShareTails == IF Size = "S"
              THEN { <<"a">>, <<PLUS>>, <<"a", "b">> } \cup (IF Mode = "mqtt" THEN { <<HASH>> } ELSE {})
              ELSE { <<>>, <<"a">>, <<PLUS>>, <<"a", "b">>, <<"b">> } \cup (IF Mode = "mqtt" THEN { <<HASH>>, <<"a", HASH>> } ELSE {})
Groups     == IF Size = "S" THEN {"g1"} ELSE {"g1", "g2"}

Filters ==
    { <<"c1">> \o w : w \in SeqsUpTo(Words, Depth) }
    \cup { <<"c1", SHARE, g>> \o t : g \in Groups, t \in ShareTails }
    \cup { <<"c2", "a">>, <<"c2", PLUS>> }
    \cup (IF Size = "S" THEN {} ELSE { <<"c1", SHARE>>, <<"c2", SHARE, "g1", "a">> })

Channels == { <<"c1">> \o w : w \in SeqsUpTo(Lits, Depth + 1) } \cup { <<"c2", "a">>, <<"c2", "b">> }
Excls    == { {}, {"s1"} }

ASSUME PrintT(<<"CFG", ToJson([channels |-> Channels, subs |-> Subs, mode |-> Mode, nfilters |-> Cardinality(Filters)])>>)

Emit(a) == Export = FALSE \/ PrintT(<<"EDGE", ToJson([a |-> a, f |-> S, t |-> S'])>>)

MCSub(f, s)   == Cardinality(S \cup {<<f, s>>}) <= MaxS /\ Subscribe(f, s) /\ Emit([n |-> "sub", f |-> f, s |-> s])
MCUnsub(f, s) == Unsubscribe(f, s) /\ Emit([n |-> "unsub", f |-> f, s |-> s])

MCNext == \E f \in Filters, s \in Subs : MCSub(f, s) \/ MCUnsub(f, s)
MCSpec == TrieInit /\ [][MCNext]_tvars

LookupExact == LookupExactFor(Channels, Excls)
=============================================================================
