------------------------------ MODULE MC_Mqtt ------------------------------
(* Enumerates the packet grid of C16 and prints every packet with its MQTT 3.1.1 byte layout. *)
EXTENDS Mqtt, Json, TLC, FiniteSets

CONSTANT Tier   \* "quick" | "thorough"

S(n, b)  == [n |-> n, b |-> b]
H(d, q, r) == [dup |-> d, qos |-> q, retain |-> r]
Ids      == IF Tier = "quick" THEN {0, 1, 256, 65535} ELSE {0, 1, 255, 256, 257, 65535}
StrLens  == IF Tier = "quick" THEN {0, 1, 127, 128} ELSE {0, 1, 127, 128, 300}
Proto    == S(4, 77)

Connects ==
    { [t |-> "connect", proto |-> Proto, version |-> 4, userFlag |-> uf, passFlag |-> pf, willRetain |-> wr, willQos |-> wq,
       willFlag |-> wf, clean |-> cl, keepalive |-> ka, clientId |-> S(cn, 99), willTopic |-> S(wl, 116), willMsg |-> S(wl + 1, 119),
       user |-> S(ul, 117), pass |-> S(ul, 112)] :
        uf \in BOOLEAN, pf \in BOOLEAN, wr \in BOOLEAN, wq \in 0..2, wf \in BOOLEAN, cl \in BOOLEAN,
        ka \in {0, 300}, cn \in {0, 23}, wl \in {0, 127}, ul \in {0, 128} }

(* payload lengths chosen so that the remaining length meets every boundary; x = bytes in front of the payload *)
RemTargets == IF Tier = "quick" THEN {0, 1, 127, 128, 16383, 16384, 65530, 65531, 65535}
              ELSE {0, 1, 2, 126, 127, 128, 129, 16382, 16383, 16384, 16385, 65000, 65529, 65530, 65531, 65535, 65536}
Publishes ==
    { [t |-> "publish", h |-> H(d, q, r), topic |-> S(tl, 116), id |-> i, payload |-> S(pl, 112)] :
        d \in BOOLEAN, q \in 0..2, r \in BOOLEAN, tl \in {1, 127, 128}, i \in {0, 258}, pl \in 0..0 }
    \cup
    { [t |-> "publish", h |-> H(FALSE, q, r), topic |-> S(tl, 116), id |-> 7,
       payload |-> S(rem - (2 + tl + (IF q > 0 THEN 2 ELSE 0)), 112)] :
        q \in 0..1, r \in BOOLEAN, tl \in {1, 128},
        rem \in { x \in RemTargets : x >= 2 + 128 + 2 } }
    \cup
    { [t |-> "publish", h |-> H(FALSE, q, FALSE), topic |-> S(1, 116), id |-> 9, payload |-> S(pl, 0)] : q \in 0..2, pl \in {0, 1, 100} }

Acks == { [t |-> ty, id |-> i] : ty \in {"puback", "pubrec", "pubcomp", "unsuback"}, i \in Ids }
Pubrels == { [t |-> "pubrel", h |-> H(FALSE, 1, FALSE), id |-> i] : i \in Ids }
Connacks == { [t |-> "connack", code |-> c] : c \in 0..5 }
Tuples(k) == [1..k -> { [topic |-> S(n, 115), qos |-> q] : n \in {1, 128}, q \in 0..2 }]
Subscribes == { [t |-> "subscribe", h |-> H(FALSE, 1, FALSE), id |-> i, subs |-> ss] :
                  i \in {1, 65535}, ss \in UNION { Tuples(k) : k \in 0..(IF Tier = "quick" THEN 2 ELSE 3) } }
Subacks == { [t |-> "suback", id |-> i, codes |-> cs] : i \in {1, 65535}, cs \in UNION { [1..k -> {0, 1, 2, 128}] : k \in 0..3 } }
Unsubscribes == { [t |-> "unsubscribe", h |-> H(FALSE, 1, FALSE), id |-> i, topics |-> ts] :
                  i \in {1, 65535}, ts \in UNION { [1..k -> { S(n, 115) : n \in {1, 127, 128} }] : k \in 0..3 } }
Empties == { [t |-> ty] : ty \in {"pingreq", "pingresp", "disconnect"} }

Packets == Connects \cup Publishes \cup Acks \cup Pubrels \cup Connacks \cup Subscribes \cup Subacks \cup Unsubscribes \cup Empties

(* self-checks of the layout operators (standard's own examples: 2.2.3 table) *)
ASSUME RemLen(0) = Byte(0) /\ RemLen(127) = Byte(127) /\ RemLen(128) = Byte(128) \o Byte(1)
ASSUME RemLen(16383) = Byte(255) \o Byte(127) /\ RemLen(16384) = Byte(128) \o Byte(128) \o Byte(1)
ASSUME RemLen(2097151) = Byte(255) \o Byte(255) \o Byte(127) /\ RemLen(268435455) = Byte(255) \o Byte(255) \o Byte(255) \o Byte(127)

ASSUME \A p \in Packets : PrintT(<<"PKT", ToJson([p |-> p, bytes |-> Encode(p)])>>)
ASSUME PrintT(<<"COUNT", ToJson([n |-> Cardinality(Packets)])>>)

VARIABLE x
Init == x = 0
Next == UNCHANGED x
=============================================================================
