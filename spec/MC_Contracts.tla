---------------------------- MODULE MC_Contracts ----------------------------
EXTENDS Contracts, Sequences, Json, TLC
CONSTANTS MaxOps, Gen
VARIABLES nops, hist
View == <<cvars, nops>>
Pick(S) == IF Gen = "sim" THEN {RandomElement(S)} ELSE S
Emit(a) == hist' = (IF Gen = "sim" THEN Append(hist, a) ELSE hist) /\ nops' = nops + 1
MCInit == CInit /\ nops = 0 /\ hist = <<>>
MCNext == /\ nops < MaxOps
          /\ \/ \E i \in Pick(Ids), r \in Pick(Recs \cup {Absent}) : Set(i, r) /\ Emit([n |-> "set", id |-> i, rec |-> r])
             \* the most common change of all: the operator refuses (or allows again) a contract, nothing else changes
             \/ \E i \in Pick({ x \in Ids : table[x] # Absent }) :
                   LET r == [table[i] EXCEPT !.state = IF @ = "allowed" THEN "refused" ELSE "allowed"] IN
                   Set(i, r) /\ Emit([n |-> "set", id |-> i, rec |-> r])
             \/ \E i \in Pick(Ids), s \in Pick(Signs), m \in Pick(Masters) : Use(i, s, m) /\ Emit([n |-> "use", id |-> i, sign |-> s, master |-> m])
             \* a key that was issued for the contract as the service knows it
             \/ \E i \in Pick({ x \in Ids : table[x] # Absent }) :
                   Use(i, table[i].sign, table[i].master) /\ Emit([n |-> "use", id |-> i, sign |-> table[i].sign, master |-> table[i].master])
             \/ \E i \in Pick({ x \in Ids : cache[x] # Absent }) :
                   Use(i, cache[i].sign, cache[i].master) /\ Emit([n |-> "use", id |-> i, sign |-> cache[i].sign, master |-> cache[i].master])
             \/ Refresh /\ Emit([n |-> "refresh"])
Dump == Gen # "sim" \/ Len(hist) < 2 \/ PrintT(<<"BEH", ToJson(hist)>>)
=============================================================================
