------------------------------ MODULE MC_Gossip ------------------------------
EXTENDS Gossip, Json, TLC
CONSTANTS MaxOps, MaxPeriodic, MaxFaults, Gen
VARIABLES nops, nper, nflt, hist
View == <<loc, st, routes, bc, gs, up, members, live, wire, nops, nper, nflt>>        \* the clock value itself is irrelevant up to order: kept via st
Emit(a) == /\ hist' = IF Gen = "sim" THEN Append(hist, a) ELSE hist
MCInit == GInit /\ nops = 0 /\ nper = 0 /\ nflt = 0 /\ hist = <<>>
(* schedule generation only: break a link when it matters (something is routed and nothing is in flight) *)
FaultOK == Gen # "sim" \/ (Quiescent /\ \E b \in Brokers : routes[b] # {})
PickW(seq) == IF Gen = "sim" THEN {seq[RandomElement(1..Len(seq))]} ELSE {seq[i] : i \in 1..Len(seq)}
MCNext ==
    \/ \E b \in Brokers, s \in Ssids : /\ nops < MaxOps /\ nops' = nops + 1 /\ UNCHANGED <<nper, nflt>>
                                       /\ \/ ClientSub(b, s)   /\ Emit([n |-> "sub", b |-> b, s |-> s])
                                          \/ ClientUnsub(b, s) /\ Emit([n |-> "unsub", b |-> b, s |-> s])
    \/ \E b \in Brokers : /\ nper < MaxPeriodic /\ nper' = nper + 1 /\ UNCHANGED <<nops, nflt>>
                          /\ Periodic(b) /\ Emit([n |-> "periodic", b |-> b])
    \/ \E b, n \in Brokers : /\ UNCHANGED <<nops, nper>>
                             /\ \/ /\ nflt < MaxFaults /\ FaultOK /\ LinkDown(b, n) /\ nflt' = nflt + 1 /\ Emit([n |-> "linkdown", b |-> b, to |-> n])
                                \/ /\ LinkUp(b, n) /\ UNCHANGED nflt /\ Emit([n |-> "linkup", b |-> b, to |-> n])
                                \/ /\ PeerGC(b, n) /\ UNCHANGED nflt /\ Emit([n |-> "gc", b |-> b, to |-> n])
    \/ \E b, n \in Brokers : /\ UNCHANGED <<nops, nper, nflt>>
                             /\ \/ Pick(b, n)    /\ Emit([n |-> "pick", b |-> b, to |-> n])
                                \/ Deliver(b, n) /\ Emit([n |-> "deliver", b |-> b, to |-> n])
Dump == Gen # "sim" \/ Len(hist) < 2 \/ PrintT(<<"BEH", ToJson(hist)>>)
=============================================================================
