------------------------------ MODULE MC_Gossip ------------------------------
EXTENDS Gossip, Json, TLC
CONSTANTS MaxOps, MaxPeriodic, Gen
VARIABLES nops, nper, hist
View == <<loc, st, routes, bc, gs, live, wire, nops, nper>>        \* the clock value itself is irrelevant up to order: kept via st
Emit(a) == /\ hist' = IF Gen = "sim" THEN Append(hist, a) ELSE hist
MCInit == GInit /\ nops = 0 /\ nper = 0 /\ hist = <<>>
PickW(seq) == IF Gen = "sim" THEN {seq[RandomElement(1..Len(seq))]} ELSE {seq[i] : i \in 1..Len(seq)}
MCNext ==
    \/ \E b \in Brokers, s \in Ssids : /\ nops < MaxOps /\ nops' = nops + 1 /\ UNCHANGED nper
                                       /\ \/ ClientSub(b, s)   /\ Emit([n |-> "sub", b |-> b, s |-> s])
                                          \/ ClientUnsub(b, s) /\ Emit([n |-> "unsub", b |-> b, s |-> s])
    \/ \E b \in Brokers : /\ nper < MaxPeriodic /\ nper' = nper + 1 /\ UNCHANGED nops
                          /\ Periodic(b) /\ Emit([n |-> "periodic", b |-> b])
    \/ \E b, n \in Brokers : /\ UNCHANGED <<nops, nper>>
                             /\ \/ Pick(b, n)    /\ Emit([n |-> "pick", b |-> b, to |-> n])
                                \/ Deliver(b, n) /\ Emit([n |-> "deliver", b |-> b, to |-> n])
Dump == Gen # "sim" \/ Len(hist) < 2 \/ PrintT(<<"BEH", ToJson(hist)>>)
=============================================================================
