------------------------------ MODULE MC_Gossip ------------------------------
EXTENDS Gossip, Json, TLC
CONSTANTS MaxOps, MaxPeriodic, MaxFaults, Gen,
          Restarts      \* BOOLEAN: broker restarts are among the faults
VARIABLES nops, nper, nflt, hist, mark
View == <<loc, st, routes, bc, gs, up, members, live, wire, fresh, nops, nper, nflt>>        \* the clock value itself is irrelevant up to order: kept via st
Sim == Gen \in {"sim", "simmark"}
Emit(a) == /\ hist' = IF Sim THEN Append(hist, a) ELSE hist
MCInit == GInit /\ nops = 0 /\ nper = 0 /\ nflt = 0 /\ hist = <<>> /\ mark = FALSE
(* schedule generation only: break a link when it matters (something is routed and nothing is in flight) *)
FaultOK == ~Sim \/ (Quiescent /\ \E b \in Brokers : routes[b] # {})
PickW(seq) == IF Sim THEN {seq[RandomElement(1..Len(seq))]} ELSE {seq[i] : i \in 1..Len(seq)}
(* schedule generation "simmark": keep only behaviours in which one broker holds DIFFERENT coalesced payloads on two of
   its links at the same time (C13: "the same payload object queued on several links" followed by different updates) *)
Interesting == \E b, n1, n2 \in Brokers : n1 # n2 /\ live[b][n1] = "snap" /\ live[b][n2] = "snap" /\ gs[b][n1] # gs[b][n2]
MCStep ==
    \/ \E b \in Brokers, s \in Ssids : /\ nops < MaxOps /\ nops' = nops + 1 /\ UNCHANGED <<nper, nflt>>
                                       /\ \/ ClientSub(b, s)   /\ Emit([n |-> "sub", b |-> b, s |-> s])
                                          \/ ClientUnsub(b, s) /\ Emit([n |-> "unsub", b |-> b, s |-> s])
    \/ \E b \in Brokers : /\ nper < MaxPeriodic /\ nper' = nper + 1 /\ UNCHANGED <<nops, nflt>>
                          /\ Periodic(b) /\ Emit([n |-> "periodic", b |-> b])
    \/ \E b, n \in Brokers : /\ UNCHANGED <<nops, nper>>
                             /\ \/ /\ nflt < MaxFaults /\ FaultOK /\ LinkDown(b, n) /\ nflt' = nflt + 1 /\ Emit([n |-> "linkdown", b |-> b, to |-> n])
                                \/ /\ LinkUp(b, n) /\ UNCHANGED nflt /\ Emit([n |-> "linkup", b |-> b, to |-> n])
                                \/ /\ PeerGC(b, n) /\ UNCHANGED nflt /\ Emit([n |-> "gc", b |-> b, to |-> n])
    \/ \E b \in Brokers : /\ UNCHANGED <<nops, nper>> /\ Restarts /\ nflt < MaxFaults /\ FaultOK /\ b \notin fresh
                          /\ Restart(b) /\ nflt' = nflt + 1 /\ Emit([n |-> "restart", b |-> b])
    \/ \E b, n \in Brokers : /\ UNCHANGED <<nops, nper, nflt>>
                             /\ \/ Pick(b, n)    /\ Emit([n |-> "pick", b |-> b, to |-> n])
                                \/ Deliver(b, n) /\ Emit([n |-> "deliver", b |-> b, to |-> n])
MCNext == MCStep /\ mark' = (mark \/ Interesting')
Dump == ~Sim \/ Len(hist) < 2 \/ (Gen = "simmark" /\ ~mark) \/ PrintT(<<"BEH", ToJson(hist)>>)
=============================================================================
