------------------------------ MODULE MC_AuthZ ------------------------------
EXTENDS AuthZ, Json, TLC
CONSTANT Tier

Words  == IF Tier = "quick" THEN {"a", "b", PLUS} ELSE {"a", "b", "c", PLUS}
Depth  == IF Tier = "quick" THEN 3 ELSE 4
Seqs(k) == UNION { [1..n -> Words] : n \in 1..k }
Targets == { Chan(w, h) : w \in Seqs(Depth - (IF Tier = "quick" THEN 0 ELSE 1)), h \in BOOLEAN } \cup { Chan(<<>>, TRUE) }
Reqs    == { Chan(w, h) : w \in Seqs(Depth), h \in BOOLEAN }

(* the deviation analysis: TLC enumerates every (target, request) pair and reports any unnamed difference *)
Unnamed == { <<t, r>> \in Targets \X Reqs : Covers(t, r) # CodeCovers(t, r) /\ ~Named(t, r) }
ASSUME Unnamed = {} \/ PrintT(<<"UNNAMED", ToJson(Unnamed)>>)
ASSUME \A t \in Targets, r \in Reqs : Named(t, r) /\ Tag(t, r) = "trailing_plus_dead" => ~CodeCovers(t, r) \/ t = Chan(<<PLUS>>, TRUE)

AllPerms == {"r", "w", "s", "l", "p", "e"}
GoodKey(t) == [decrypts |-> TRUE, contract |-> "own", sigOK |-> TRUE, masterOK |-> TRUE, perms |-> AllPerms \ {"e"},
               expiry |-> "none", banned |-> FALSE, target |-> t]

(* grid A: the target rule, with an otherwise perfect key *)
ASSUME \A t \in Targets, r \in Reqs :
    PrintT(<<"CASE", ToJson([key |-> GoodKey(t), req |-> r, op |-> "subscribe",
                             want |-> Authorize(GoodKey(t), r, "subscribe", Covers),
                             code |-> Authorize(GoodKey(t), r, "subscribe", CodeCovers),
                             tag  |-> Tag(t, r)])>>)

(* grid B: everything else, on a covering and a non-covering pair *)
Masks  == { {p} : p \in AllPerms } \cup { {}, {"r", "w"}, AllPerms \ {"e"}, AllPerms, {"s", "l", "p"} }
KeysB  == { [decrypts |-> d, contract |-> c, sigOK |-> s, masterOK |-> m, perms |-> ps, expiry |-> e, banned |-> b,
             target |-> Chan(<<"a", "b">>, h)] :
               d \in BOOLEAN, c \in {"own", "foreign"}, s \in BOOLEAN, m \in BOOLEAN, ps \in Masks,
               e \in {"none", "past", "future"}, b \in BOOLEAN, h \in BOOLEAN }
KeysBq == { k \in KeysB : (~k.decrypts => k.contract = "own" /\ k.sigOK /\ k.masterOK /\ k.expiry = "none" /\ ~k.banned)
                          /\ (Cardinality({x \in {k.contract # "own", ~k.sigOK, ~k.masterOK, k.banned} : x}) <= 1) }
Ops    == {"subscribe", "publish", "history", "presence", "extend"}
ReqsB  == { Chan(<<"a", "b">>, FALSE), Chan(<<"a", "b", "b">>, FALSE), Chan(<<"b", "b">>, FALSE) }
ASSUME \A k \in KeysBq, r \in ReqsB, op \in Ops :
    PrintT(<<"CASE", ToJson([key |-> k, req |-> r, op |-> op,
                             want |-> Authorize(k, r, op, Covers), code |-> Authorize(k, r, op, CodeCovers), tag |-> Tag(k.target, r)])>>)
ASSUME PrintT(<<"COUNT", ToJson([n |-> Cardinality(Targets) * Cardinality(Reqs) + Cardinality(KeysBq) * Cardinality(ReqsB) * Cardinality(Ops)])>>)

VARIABLE x
Init == x = 0
Next == UNCHANGED x
=============================================================================
