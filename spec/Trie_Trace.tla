----------------------------- MODULE Trie_Trace -----------------------------
(* Validates traces recorded from the real message.Trie against Trie.tla.
   Sequential events:  {"e":"reset"}  {"e":"sub"|"unsub","f":[..],"s":"..","obs":{..}}
   obs = {"count":n,"nodes":n,"look":[{"ch":[..],"x":[..],"r":[[subs..],..]}]}  observed AFTER the operation.
   Every observed lookup result must be one of the results the PROPERTY allows (SpecResults),
   Count must be 0 and only the root may remain whenever no subscription is left. *)
EXTENDS Trie, TraceLib

CONSTANT Strict   \* TRUE: also demand the model's exact Count / node count in every state (diagnostic run)

VARIABLE l
vars == <<tvars, l>>

(* evaluated on the state AFTER the operation: primes are written out, because priming the whole
   application would also prime the cursor l inside the argument *)
ObsOK(o) ==
    /\ (S' = {}) => (o.count = 0 /\ o.nodes = 1)      \* "the subscription index is empty again"
    /\ Strict => (o.count = count' /\ o.nodes = Cardinality(nodes'))   \* internal agreement: diagnostic only
    /\ \A i \in DOMAIN o.look :
         LET lk == o.look[i] IN
         \A j \in DOMAIN lk.r : ToSet(lk.r[j]) \in SpecResults(S', lk.ch, ToSet(lk.x))

IsEvent(e) == l <= Len(Log) /\ Log[l].e = e /\ l' = l + 1

TrReset == IsEvent("reset") /\ nodes' = {<<>>} /\ subsAt' = [p \in {<<>>} |-> {}] /\ count' = 0 /\ S' = {}
TrSub   == IsEvent("sub")   /\ Subscribe(Log[l].f, Log[l].s)   /\ ObsOK(Log[l].obs)
TrUnsub == IsEvent("unsub") /\ Unsubscribe(Log[l].f, Log[l].s) /\ ObsOK(Log[l].obs)

TraceInit == TrieInit /\ l = 1 /\ MarkInit
TraceNext == TrReset \/ TrSub \/ TrUnsub
MarkC     == Mark(l)
=============================================================================
