-------------------------------- MODULE Crdt --------------------------------
(***************************************************************************)
(* Last-write-wins replicated map (internal/event/crdt/*.go, event/state.go)*)
(* One entry per key: a pair (a, d) of add / remove times, absent = (0,0). *)
(* Replica actions are the critical sections of the code:                  *)
(*   Add / Del   - guarded by the clock exactly as the code (`if t < now`) *)
(*   Notify-style op payloads (a fresh one-entry state with its own clock  *)
(*   read), full snapshots, deltas relayed after a merge;                  *)
(*   Deliver = Merge, which ALSO returns the delta (C13).                  *)
(* Messages are never consumed: any payload may be delivered to any        *)
(* replica any number of times in any order (duplication, reordering,      *)
(* partition = not delivering).                                            *)
(***************************************************************************)
EXTENDS Naturals, Sequences, FiniteSets, TLC

CONSTANTS Replicas, Keys, MaxTime

VARIABLES st,      \* st[r][k] = [a |-> add time, d |-> remove time]
          msgs,    \* sequence of payloads ever created (each a map Keys -> value)
          seen     \* ghost: seen[r] = set of primitive updates <<k, "a"|"d", t>> incorporated by r
cvars == <<st, msgs, seen>>

Times   == 1..MaxTime
Zero    == [a |-> 0, d |-> 0]
Empty   == [k \in Keys |-> Zero]
Max(x, y) == IF x > y THEN x ELSE y

IsAdded(v)   == v.a # 0 /\ v.a >= v.d          \* "added and latest add not older than latest remove"
IsRemoved(v) == v.a < v.d

JoinV(v, w)  == [a |-> Max(v.a, w.a), d |-> Max(v.d, w.d)]
Join(l, m)   == [k \in Keys |-> JoinV(l[k], m[k])]
(* what Merge leaves in its argument: only the times that changed the local state *)
DeltaV(l, m) == [a |-> IF l.a < m.a THEN m.a ELSE 0, d |-> IF l.d < m.d THEN m.d ELSE 0]
Delta(l, m)  == [k \in Keys |-> DeltaV(l[k], m[k])]

Updates(p) == { <<k, "a", p[k].a>> : k \in { x \in Keys : p[x].a > 0 } }
              \cup { <<k, "d", p[k].d>> : k \in { x \in Keys : p[x].d > 0 } }
MaxOf(T)   == IF T = {} THEN 0 ELSE CHOOSE t \in T : \A u \in T : u <= t
JoinU(U)   == [k \in Keys |-> [a |-> MaxOf({ u[3] : u \in { x \in U : x[1] = k /\ x[2] = "a" } }),
                               d |-> MaxOf({ u[3] : u \in { x \in U : x[1] = k /\ x[2] = "d" } })]]

CrdtInit ==
    /\ st   = [r \in Replicas |-> Empty]
    /\ msgs = <<>>
    /\ seen = [r \in Replicas |-> {}]

One(k, v) == [x \in Keys |-> IF x = k THEN v ELSE Zero]

(* Map.Add at replica r with clock reading t; op > 0: the caller also builds a one-entry payload whose
   add time is a second clock reading `op' (Swarm.Notify) *)
Add(r, k, t, op) ==
    /\ st'   = [st EXCEPT ![r][k].a = IF @ < t THEN t ELSE @]
    /\ seen' = [seen EXCEPT ![r] = IF st[r][k].a < t THEN @ \cup {<<k, "a", t>>} ELSE @]
    /\ msgs' = IF op > 0 THEN Append(msgs, One(k, [a |-> op, d |-> 0])) ELSE msgs

Del(r, k, t, op) ==
    /\ st'   = [st EXCEPT ![r][k].d = IF @ < t THEN t ELSE @]
    /\ seen' = [seen EXCEPT ![r] = IF st[r][k].d < t THEN @ \cup {<<k, "d", t>>} ELSE @]
    /\ msgs' = IF op > 0 THEN Append(msgs, One(k, [a |-> 0, d |-> op])) ELSE msgs

(* full-state gossip: a snapshot of the replica becomes a payload *)
Snapshot(r) ==
    /\ st[r] # Empty
    /\ msgs' = Append(msgs, st[r])
    /\ UNCHANGED <<st, seen>>

(* Merge of payload i into replica r; with relay the returned delta (if any) becomes a payload itself *)
Deliver(i, r, relay) ==
    LET p == msgs[i]
        d == Delta(st[r], p)
    IN  /\ st'   = [st EXCEPT ![r] = Join(@, p)]
        /\ seen' = [seen EXCEPT ![r] = @ \cup Updates(p)]
        /\ msgs' = IF relay /\ d # Empty THEN Append(msgs, d) ELSE msgs

---------------------------------------------------------------------------
(* C04 *)
StateIsJoinOfSeen == \A r \in Replicas : st[r] = JoinU(seen[r])
Converged         == \A r1, r2 \in Replicas : seen[r1] = seen[r2] =>
                        /\ st[r1] = st[r2]
                        /\ \A k \in Keys : IsAdded(st[r1][k]) = IsAdded(st[r2][k])
Monotone          == [][\A r \in Replicas, k \in Keys : st[r][k].a <= st'[r][k].a /\ st[r][k].d <= st'[r][k].d]_cvars

(* C13, first half: algebra of the delta over every pair of values in the time range *)
Vals == [a : 0..MaxTime, d : 0..MaxTime]
DeltaLaws ==
    \A l, m \in Vals :
        /\ JoinV(l, DeltaV(l, m)) = JoinV(l, m)                         \* relaying the delta loses nothing
        /\ (DeltaV(l, m) = Zero) <=> (JoinV(l, m) = l)                  \* empty exactly when nothing changed
        /\ DeltaV(l, m).a # 0 <=> JoinV(l, m).a # l.a                   \* only the times that changed
        /\ DeltaV(l, m).d # 0 <=> JoinV(l, m).d # l.d
        /\ DeltaV(JoinV(l, m), m) = Zero                                \* re-gossip stops once merged
JoinLaws ==
    \A l, m, n \in Vals :
        /\ JoinV(l, m) = JoinV(m, l)
        /\ JoinV(l, JoinV(m, n)) = JoinV(JoinV(l, m), n)
        /\ JoinV(l, l) = l
=============================================================================
