----------------------------- MODULE WsTransport -----------------------------
(***************************************************************************)
(* MQTT-over-WebSocket adapter (network/websocket/websocket.go).           *)
(* Incoming: a sequence of WebSocket messages; binary and text messages    *)
(* carry the MQTT byte stream (1..N cut at arbitrary places, possibly      *)
(* empty), control messages are skipped.  Read(n) serves the current       *)
(* message reader; at its end (io.EOF, with or without data) the next      *)
(* Read moves on.  Write(p) = exactly one binary message carrying p.       *)
(***************************************************************************)
EXTENDS Naturals, Sequences

CONSTANTS N, MaxBuf

VARIABLES frames,    \* incoming messages not yet opened: [kind, data]
          reader,    \* remaining bytes of the open message, or <<"nil">> marker
          open,      \* a message reader is open
          cur,       \* ghost: MQTT bytes handed to the decoder so far
          last,      \* observation: [data, err] of the last Read
          sent       \* outgoing: sequence of binary messages written
tvars == <<frames, reader, open, cur, last, sent>>

Stream == [i \in 1..N |-> i]
Min(a, b) == IF a < b THEN a ELSE b
IsData(f) == f.kind \in {"bin", "text"}

WsInit(fs) == /\ frames = fs /\ reader = <<>> /\ open = FALSE /\ cur = 0
              /\ last = [data |-> <<>>, err |-> "nil"] /\ sent = <<>>

RECURSIVE SkipCtrl(_)
SkipCtrl(fs) == IF fs # <<>> /\ ~IsData(Head(fs)) THEN SkipCtrl(Tail(fs)) ELSE fs

(* Read(b) with len(b) = n.  eofWithData: the message reader reports io.EOF together with the last bytes *)
Read(n, eofWithData) ==
    LET fs == IF open THEN frames ELSE SkipCtrl(frames) IN
    IF ~open /\ fs = <<>>
    THEN /\ last' = [data |-> <<>>, err |-> "closed"]          \* NextReader fails: the socket is gone
         /\ frames' = <<>> /\ UNCHANGED <<reader, open, cur, sent>>
    ELSE LET r    == IF open THEN reader ELSE Head(fs).data
             rest == IF open THEN frames ELSE Tail(fs)
             k    == Min(n, Len(r))
             left == SubSeq(r, k + 1, Len(r))
             ends == left = <<>> /\ (k = 0 \/ eofWithData)       \* the reader returned io.EOF on this call
         IN  /\ last' = [data |-> SubSeq(r, 1, k), err |-> "nil"]
             /\ cur' = cur + k
             /\ frames' = rest
             /\ reader' = IF ends THEN <<>> ELSE left
             /\ open' = ~ends
             /\ UNCHANGED sent

Write(p) == /\ sent' = Append(sent, p) /\ UNCHANGED <<frames, reader, open, cur, last>>

(* C17: the decoder sees the client's bytes in order, once each; the client receives one message per write *)
ReadsInOrder == last.data = SubSeq(Stream, cur - Len(last.data) + 1, cur)
=============================================================================
