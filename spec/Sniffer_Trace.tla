---------------------------- MODULE Sniffer_Trace ----------------------------
(* {"e":"sreset"} (fresh connection)  {"e":"reset","snif":bool}  {"e":"read","size":n,"k":n,"data":[..],"err":"nil"|"EOF"} *)
EXTENDS Sniffer, TraceLib
VARIABLE l
Ev == Log[l]
IsEvent(e) == l <= Len(Log) /\ Log[l].e = e /\ l' = l + 1
TrFresh == IsEvent("sreset") /\ src' = Stream /\ buf' = <<>> /\ bufRead' = 0 /\ bufSize' = 0 /\ sniffing' = FALSE
              /\ lastErr' = "nil" /\ alloc' = FALSE /\ cur' = 0 /\ last' = [data |-> <<>>, err |-> "nil"]
TrReset == IsEvent("reset") /\ Reset(Ev.snif)
(* the bytes the real reader returned must be the next bytes of the client's stream (ReadOK), whatever the model's
   own chunking would have been: the source's k is taken from the log *)
TrRead  == IsEvent("read") /\ Read(Ev.size, Ev.k) /\ last'.data = Ev.data /\ last'.err = Ev.err
TraceInit == SnInit /\ l = 1 /\ MarkInit
TraceNext == TrFresh \/ TrReset \/ TrRead
MarkC == Mark(l)
TraceInv == ReadsInOrder
=============================================================================
