-------------------------------- MODULE Gossip --------------------------------
(***************************************************************************)
(* Cluster routing over gossip (service/cluster/swarm.go, peer.go,          *)
(* event/state.go, and the sending side of weaveworks/mesh: gossip.go,     *)
(* gossip_channel.go).  INTENDED DESIGN: the gossip library's contract is  *)
(* respected (coalescing two queued payloads yields their union and        *)
(* mutates neither), and the routing table follows the activeness          *)
(* transitions of the merged state.  Where the code is known to deviate    *)
(* the deviation is a listed finding (known_findings.json), recognised in  *)
(* a trace by the presence of a coalescing step.                           *)
(*                                                                         *)
(* Brokers form a full mesh.  Every broker has one client connection that  *)
(* may hold a subscription on each ssid.  A key of the replicated state is *)
(* <<owner broker, ssid>>; its value an LWW pair (a, d).                   *)
(* Per directed link: a broadcast bucket (payloads originated by the       *)
(* sender), a gossip bucket (periodic full state, relayed deltas) and a    *)
(* FIFO wire.  Pick takes the gossip bucket first (as mesh does).          *)
(***************************************************************************)
EXTENDS Naturals, Sequences, FiniteSets

CONSTANTS Brokers, Ssids

VARIABLES loc,      \* loc[b]: ssids the local client of b is subscribed to
          st,       \* st[b][k]: replicated state of b
          routes,   \* routes[b]: set of <<peer, ssid>> = remote entries of b's subscription trie
          bc, gs,   \* bc[b][n], gs[b][n]: queued payload (a partial state) or Nothing
          live,     \* live[b][n]: the gossip bucket of link b -> n refers to b's live state (Gossip() hands out the
                    \*   state object itself: what is sent is the state at pick time)
          wire,     \* wire[b][n]: sequence of [kind, p]
          now,      \* logical clock (every clock reading is later than all earlier ones)
          merged    \* observation: number of coalescing steps so far
gvars == <<loc, st, routes, bc, gs, live, wire, now, merged>>

Keys    == Brokers \X Ssids
Zero    == [a |-> 0, d |-> 0]
Nothing == [k \in Keys |-> Zero]
Max(x, y) == IF x > y THEN x ELSE y
IsAdded(v) == v.a # 0 /\ v.a >= v.d
JoinV(v, w) == [a |-> Max(v.a, w.a), d |-> Max(v.d, w.d)]
Join(l, m)  == [k \in Keys |-> JoinV(l[k], m[k])]
DeltaV(l, m) == [a |-> IF l.a < m.a THEN m.a ELSE 0, d |-> IF l.d < m.d THEN m.d ELSE 0]
Delta(l, m)  == [k \in Keys |-> DeltaV(l[k], m[k])]
One(k, v) == [x \in Keys |-> IF x = k THEN v ELSE Zero]
Others(b) == Brokers \ {b}

GInit ==
    /\ loc = [b \in Brokers |-> {}]
    /\ st  = [b \in Brokers |-> Nothing]
    /\ routes = [b \in Brokers |-> {}]
    /\ bc = [b \in Brokers |-> [n \in Brokers |-> Nothing]]
    /\ gs = [b \in Brokers |-> [n \in Brokers |-> Nothing]]
    /\ live = [b \in Brokers |-> [n \in Brokers |-> FALSE]]
    /\ wire = [b \in Brokers |-> [n \in Brokers |-> <<>>]]
    /\ now = 1 /\ merged = 0

(* how many links of b coalesce when p is queued on all of them *)
Busy(b, bucket) == Cardinality({ n \in Others(b) : bucket[b][n] # Nothing })

(* a client subscribes / unsubscribes on its broker: Swarm.Notify = local Add/Del (first clock reading), then a
   one-entry payload with a second reading is broadcast: queued (coalesced = union) on every link *)
Notify(b, s, on) ==
    LET k  == <<b, s>>
        op == One(k, IF on THEN [a |-> now + 1, d |-> 0] ELSE [a |-> 0, d |-> now + 1])
    IN  /\ st' = [st EXCEPT ![b][k] = IF on THEN [@ EXCEPT !.a = now] ELSE [@ EXCEPT !.d = now]]
        /\ bc' = [bc EXCEPT ![b] = [n \in Brokers |-> IF n = b THEN Nothing ELSE Join(@[n], op)]]
        /\ merged' = merged + Busy(b, bc)
        /\ now' = now + 2
ClientSub(b, s)   == /\ s \notin loc[b] /\ loc' = [loc EXCEPT ![b] = @ \cup {s}] /\ Notify(b, s, TRUE)
                     /\ UNCHANGED <<routes, gs, live, wire>>
ClientUnsub(b, s) == /\ s \in loc[b] /\ loc' = [loc EXCEPT ![b] = @ \ {s}] /\ Notify(b, s, FALSE)
                     /\ UNCHANGED <<routes, gs, live, wire>>

(* periodic gossip: the full state is queued on the gossip bucket of every link *)
GsBusy(b, n) == gs[b][n] # Nothing \/ live[b][n]
Periodic(b) ==
    /\ live' = [live EXCEPT ![b] = [n \in Brokers |-> n # b]]
    /\ merged' = merged + Cardinality({ n \in Others(b) : GsBusy(b, n) })
    /\ UNCHANGED <<loc, st, routes, bc, gs, wire, now>>

(* the sender goroutine of link b -> n: gossip bucket first, else the broadcast bucket; encode onto the wire *)
Pick(b, n) ==
    /\ b # n /\ (GsBusy(b, n) \/ bc[b][n] # Nothing)
    /\ IF GsBusy(b, n)
       THEN /\ wire' = [wire EXCEPT ![b][n] = Append(@, [kind |-> "gossip", p |-> Join(gs[b][n], IF live[b][n] THEN st[b] ELSE Nothing)])]
            /\ gs' = [gs EXCEPT ![b][n] = Nothing] /\ live' = [live EXCEPT ![b][n] = FALSE] /\ UNCHANGED bc
       ELSE /\ wire' = [wire EXCEPT ![b][n] = Append(@, [kind |-> "broadcast", p |-> bc[b][n]])]
            /\ bc' = [bc EXCEPT ![b][n] = Nothing] /\ UNCHANGED <<gs, live>>
    /\ UNCHANGED <<loc, st, routes, now, merged>>

(* the routing table follows the activeness of the merged state: remote peer q is in the trie for ssid s iff q's
   subscription on s is active in the replica *)
RoutesOf(b, state) == { <<k[1], k[2]>> : k \in { x \in Keys : x[1] # b /\ IsAdded(state[x]) } }

(* receive the head of wire b -> n: Swarm.merge; a gossip payload's delta is relayed to the other neighbours *)
Deliver(b, n) ==
    /\ b # n /\ wire[b][n] # <<>>
    /\ LET m  == Head(wire[b][n])
           dl == Delta(st[n], m.p)
           s2 == Join(st[n], m.p)
       IN  /\ st' = [st EXCEPT ![n] = s2]
           /\ routes' = [routes EXCEPT ![n] = RoutesOf(n, s2)]
           /\ wire' = [wire EXCEPT ![b][n] = Tail(@)]
           /\ IF m.kind = "gossip" /\ dl # Nothing
              THEN /\ gs' = [gs EXCEPT ![n] = [x \in Brokers |-> IF x \in {n, b} THEN @[x] ELSE Join(@[x], dl)]]
                   /\ merged' = merged + Cardinality({ x \in Brokers \ {n, b} : GsBusy(n, x) })
              ELSE UNCHANGED <<gs, merged>>
    /\ UNCHANGED <<loc, bc, live, now>>

GNext == \/ \E b \in Brokers, s \in Ssids : ClientSub(b, s) \/ ClientUnsub(b, s)
         \/ \E b \in Brokers : Periodic(b)
         \/ \E b, n \in Brokers : Pick(b, n) \/ Deliver(b, n)

(* C05: once nothing is queued or in flight, every broker forwards a channel to exactly the brokers that have a live
   local subscriber for it *)
Quiescent == \A b, n \in Brokers : bc[b][n] = Nothing /\ gs[b][n] = Nothing /\ ~live[b][n] /\ wire[b][n] = <<>>
RoutingAtQuiescence ==
    Quiescent => \A b \in Brokers : routes[b] = { <<p, s>> \in Brokers \X Ssids : p # b /\ s \in loc[p] }
(* a message published on broker b for ssid s: delivered to b's own client if subscribed, forwarded to exactly the
   brokers in b's routing table for s, whose clients receive it if they are (still) subscribed *)
ForwardedTo(b, s) == { p \in Others(b) : <<p, s>> \in routes[b] }
ReceivedBy(b, s)  == { p \in Brokers : s \in loc[p] /\ (p = b \/ p \in ForwardedTo(b, s)) }
(* C05 in terms of messages: at quiescence a publish reaches every broker with a live subscriber, once, and no other *)
ForwardingAtQuiescence ==
    Quiescent => \A b \in Brokers, s \in Ssids : /\ ForwardedTo(b, s) = { p \in Others(b) : s \in loc[p] }
                                                 /\ ReceivedBy(b, s) = { p \in Brokers : s \in loc[p] }

(* C13: a payload put on the wire carries every update queued on that link since the last pick: with union
   coalescing the states converge at quiescence *)
ConvergedAtQuiescence == Quiescent => \A b, n \in Brokers : \A k \in Keys : IsAdded(st[b][k]) = IsAdded(st[n][k])
=============================================================================
