-------------------------------- MODULE Gossip --------------------------------
(***************************************************************************)
(* Cluster routing over gossip (service/cluster/swarm.go, peer.go,          *)
(* event/state.go, and the sending side of weaveworks/mesh: gossip.go,     *)
(* gossip_channel.go).  The gossip library's contract is respected:        *)
(* coalescing two queued payloads yields their union and mutates neither   *)
(* (since fix 2260ba7 the code does that too), and the routing table       *)
(* follows the activeness transitions of the merged state.  The one place  *)
(* where the code is known to deviate from the intended design - the       *)
(* router's garbage collection and the return of a collected peer - is a   *)
(* named switch (GcAsCode).                                                *)
(*                                                                         *)
(* Brokers form a full mesh.  Every broker has one client connection that  *)
(* may hold a subscription on each ssid.  A key of the replicated state is *)
(* <<owner broker, broker whose connection id it carries, ssid>>; a real   *)
(* subscription has owner = connection owner (the other keys are only ever *)
(* written by the code's garbage collection); its value an LWW pair (a, d).*)
(* Per directed link: a broadcast bucket (payloads originated by the       *)
(* sender), a gossip bucket (periodic full state, relayed deltas) and a    *)
(* FIFO wire.  Pick takes the gossip bucket first (as mesh does).          *)
(***************************************************************************)
EXTENDS Naturals, Sequences, FiniteSets

CONSTANTS Brokers, Ssids,
          GcAsCode      \* FALSE = intended design; TRUE = what the code does (listed finding gc_peer_return, see PeerGC / Deliver)

VARIABLES loc,      \* loc[b]: ssids the local client of b is subscribed to
          st,       \* st[b][k]: replicated state of b
          routes,   \* routes[b]: set of <<peer, ssid>> = remote entries of b's subscription trie
          bc, gs,   \* bc[b][n], gs[b][n]: queued payload (a partial state) or Nothing
          up,       \* up[b][n]: the mesh connection between b and n is established (symmetric)
          members,  \* members[b]: peers in b's member list (created by findPeer, removed by the router's GC callback)
          live,     \* live[b][n]: what the gossip bucket of link b -> n holds: "none" (nil), "live" (b's live state object:
                    \*   Gossip() hands out the state itself, what is sent is the state at pick time) or "snap" (the
                    \*   payload gs[b][n], possibly an empty one)
          wire,     \* wire[b][n]: sequence of [kind, p]
          fresh,    \* brokers that were restarted (a new process under the old name: empty replica, no clients yet)
          now,      \* logical clock (every clock reading is later than all earlier ones)
          merged    \* observation: number of coalescing steps so far
gvars == <<loc, st, routes, bc, gs, up, members, live, wire, fresh, now, merged>>

Keys    == Brokers \X Brokers \X Ssids
KeyOf(b, s) == <<b, b, s>>
Zero    == [a |-> 0, d |-> 0]
Nothing == [k \in Keys |-> Zero]
Max(x, y) == IF x > y THEN x ELSE y
IsAdded(v) == v.a # 0 /\ v.a >= v.d
JoinV(v, w) == [a |-> Max(v.a, w.a), d |-> Max(v.d, w.d)]
Join(l, m)  == [k \in Keys |-> JoinV(l[k], m[k])]
DeltaV(l, m) == [a |-> IF l.a < m.a THEN m.a ELSE 0, d |-> IF l.d < m.d THEN m.d ELSE 0]
Delta(l, m)  == [k \in Keys |-> DeltaV(l[k], m[k])]
One(k, v) == [x \in Keys |-> IF x = k THEN v ELSE Zero]
Others(b) == Brokers \ {b}
Neigh(b)  == { n \in Brokers : n # b /\ up[b][n] }

GInit ==
    /\ loc = [b \in Brokers |-> {}]
    /\ st  = [b \in Brokers |-> Nothing]
    /\ routes = [b \in Brokers |-> {}]
    /\ bc = [b \in Brokers |-> [n \in Brokers |-> Nothing]]
    /\ gs = [b \in Brokers |-> [n \in Brokers |-> Nothing]]
    /\ up = [b \in Brokers |-> [n \in Brokers |-> b # n]]
    /\ members = [b \in Brokers |-> {}]
    /\ live = [b \in Brokers |-> [n \in Brokers |-> "none"]]
    /\ wire = [b \in Brokers |-> [n \in Brokers |-> <<>>]]
    /\ fresh = {}
    /\ now = 1 /\ merged = 0

(* how many links of b coalesce when p is queued on all of them *)
Busy(b, bucket) == Cardinality({ n \in Neigh(b) : bucket[b][n] # Nothing })

(* a client subscribes / unsubscribes on its broker: Swarm.Notify = local Add/Del (first clock reading), then a
   one-entry payload with a second reading is broadcast: queued (coalesced = union) on every link *)
Notify(b, s, on) ==
    LET k  == KeyOf(b, s)
        op == One(k, IF on THEN [a |-> now + 1, d |-> 0] ELSE [a |-> 0, d |-> now + 1])
    IN  /\ st' = [st EXCEPT ![b][k] = IF on THEN [@ EXCEPT !.a = now] ELSE [@ EXCEPT !.d = now]]
        /\ bc' = [bc EXCEPT ![b] = [n \in Brokers |-> IF n \in Neigh(b) THEN Join(@[n], op) ELSE @[n]]]
        /\ merged' = merged + Busy(b, bc)
        /\ now' = now + 2
(* (modelling restriction: the clients of a restarted broker do not subscribe again - their connection ids, hence their
   keys, would be new ones) *)
ClientSub(b, s)   == /\ b \notin fresh /\ s \notin loc[b] /\ loc' = [loc EXCEPT ![b] = @ \cup {s}] /\ Notify(b, s, TRUE)
                     /\ UNCHANGED <<routes, gs, up, members, live, wire, fresh>>
ClientUnsub(b, s) == /\ s \in loc[b] /\ loc' = [loc EXCEPT ![b] = @ \ {s}] /\ Notify(b, s, FALSE)
                     /\ UNCHANGED <<routes, gs, up, members, live, wire, fresh>>

(* periodic gossip: the full state is queued on the gossip bucket of every link *)
GsBusy(b, n) == live[b][n] # "none"
(* queue b's complete state on the gossip bucket of link b -> n.  An empty bucket then refers to the live state object
   (what is sent is the state at pick time); a non-empty bucket is coalesced: the new pending payload is a fresh union
   of what the bucket held and the state as it is now *)
QueueFull(b, ns) ==
    /\ gs' = [gs EXCEPT ![b] = [n \in Brokers |-> IF n \in ns /\ GsBusy(b, n) THEN Join(@[n], st[b]) ELSE @[n]]]
    /\ live' = [live EXCEPT ![b] = [n \in Brokers |-> IF n \in ns THEN (IF GsBusy(b, n) THEN "snap" ELSE "live") ELSE @[n]]]
Periodic(b) ==
    /\ QueueFull(b, Neigh(b))
    /\ merged' = merged + Cardinality({ n \in Neigh(b) : GsBusy(b, n) })
    /\ UNCHANGED <<loc, st, routes, bc, up, members, wire, fresh, now>>

(* the sender goroutine of link b -> n: gossip bucket first, else the broadcast bucket; encode onto the wire *)
Pick(b, n) ==
    /\ b # n /\ up[b][n] /\ (GsBusy(b, n) \/ bc[b][n] # Nothing)
    /\ IF GsBusy(b, n)
       THEN /\ wire' = [wire EXCEPT ![b][n] = Append(@, [kind |-> "gossip", p |-> Join(gs[b][n], IF live[b][n] = "live" THEN st[b] ELSE Nothing)])]
            /\ gs' = [gs EXCEPT ![b][n] = Nothing] /\ live' = [live EXCEPT ![b][n] = "none"] /\ UNCHANGED bc
       ELSE /\ wire' = [wire EXCEPT ![b][n] = Append(@, [kind |-> "broadcast", p |-> bc[b][n]])]
            /\ bc' = [bc EXCEPT ![b][n] = Nothing] /\ UNCHANGED <<gs, live>>
    /\ UNCHANGED <<loc, st, routes, up, members, fresh, now, merged>>

(* the routing table follows the activeness of the merged state: remote peer q is in the trie for ssid s iff q's
   subscription on s is active in the replica *)
RoutesOf(b, state, mem) == { <<k[1], k[3]>> : k \in { x \in Keys : x[1] # b /\ x[1] \in mem /\ IsAdded(state[x]) } }
(* owners of the entries a payload changed: Swarm.merge calls findPeer for each of them (the peer is created if needed) *)
OwnersIn(dl, n) == { k[1] : k \in { x \in Keys : dl[x] # Zero /\ x[1] # n } }

(* receive the head of wire b -> n: Swarm.merge; a gossip payload's delta is relayed to the other neighbours.
   INTENDED (not in the code, part of the listed finding restart_stale_routes): a broker that finds a live entry of ITS
   OWN for which it has no subscriber - the legacy of the process it replaced - withdraws it like an unsubscribe would *)
RECURSIVE Withdraw(_, _, _)
Withdraw(state, ks, t) ==
    IF ks = {} THEN state
    ELSE LET k == CHOOSE x \in ks : TRUE IN Withdraw([state EXCEPT ![k].d = t], ks \ {k}, t + 2)
RECURSIVE WithdrawOps(_, _)
WithdrawOps(ks, t) ==
    IF ks = {} THEN Nothing
    ELSE LET k == CHOOSE x \in ks : TRUE IN Join(One(k, [a |-> 0, d |-> t + 1]), WithdrawOps(ks \ {k}, t + 2))
Deliver(b, n) ==
    /\ b # n /\ up[b][n] /\ wire[b][n] # <<>>
    /\ LET m  == Head(wire[b][n])
           dl == Delta(st[n], m.p)
           j2 == Join(st[n], m.p)
           legacy == IF GcAsCode THEN {} ELSE { k \in Keys : k[1] = n /\ IsAdded(j2[k]) /\ k[3] \notin loc[n] }
           s2 == Withdraw(j2, legacy, now)
           m2 == members[n] \cup OwnersIn(dl, n) \cup (IF GcAsCode THEN {} ELSE {b})   \* INTENDED: hearing from a peer brings it back; the code only looks at the owners of changed entries
       IN  /\ st' = [st EXCEPT ![n] = s2]
           /\ members' = [members EXCEPT ![n] = m2]
           /\ routes' = [routes EXCEPT ![n] = RoutesOf(n, s2, m2)]
           /\ wire' = [wire EXCEPT ![b][n] = Tail(@)]
           /\ now' = now + 2 * Cardinality(legacy)
           /\ bc' = IF legacy = {} THEN bc
                    ELSE [bc EXCEPT ![n] = [x \in Brokers |-> IF x \in Neigh(n) THEN Join(@[x], WithdrawOps(legacy, now)) ELSE @[x]]]
           /\ IF m.kind = "gossip" /\ dl # Nothing
              THEN /\ gs' = [gs EXCEPT ![n] = [x \in Brokers |-> IF x \in Neigh(n) \ {b}
                                                                   THEN Join(Join(@[x], IF live[n][x] = "live" THEN s2 ELSE Nothing), dl) ELSE @[x]]]
                   /\ live' = [live EXCEPT ![n] = [x \in Brokers |-> IF x \in Neigh(n) \ {b} THEN "snap" ELSE @[x]]]
                   /\ merged' = merged + Cardinality({ x \in Neigh(n) \ {b} : GsBusy(n, x) })
              ELSE UNCHANGED <<gs, live, merged>>
    /\ UNCHANGED <<loc, up, fresh>>

(* the connection between b and n breaks: whatever was queued or in flight between them is lost *)
LinkDown(b, n) ==
    /\ b # n /\ up[b][n]
    /\ up' = [up EXCEPT ![b][n] = FALSE, ![n][b] = FALSE]
    /\ bc' = [bc EXCEPT ![b][n] = Nothing, ![n][b] = Nothing]
    /\ gs' = [gs EXCEPT ![b][n] = Nothing, ![n][b] = Nothing]
    /\ live' = [live EXCEPT ![b][n] = "none", ![n][b] = "none"]
    /\ wire' = [wire EXCEPT ![b][n] = <<>>, ![n][b] = <<>>]
    /\ UNCHANGED <<loc, st, routes, members, fresh, now, merged>>
(* the connection comes back: each side sends its complete state down the new connection (mesh: sendAllGossipDown) *)
LinkUp(b, n) ==
    /\ b # n /\ ~up[b][n]
    /\ up' = [up EXCEPT ![b][n] = TRUE, ![n][b] = TRUE]
    /\ live' = [live EXCEPT ![b][n] = "live", ![n][b] = "live"]        \* the buckets of a new connection are empty
    /\ UNCHANGED <<loc, st, routes, bc, gs, members, wire, fresh, now, merged>>
(* b's router garbage-collects the unreachable peer p (Swarm.onPeerOffline): p leaves the member list and b stops
   forwarding to it.  INTENDED: nothing else (the replicated entries of p stay; they are routed again when p is heard
   from).  THE CODE (GcAsCode) means to write a remove for every live subscription of p, but the unsubscribe handler it
   calls first rewrites the event's peer to b itself (Service.NotifyUnsubscribe: ev.Peer = s.ID()), so the remove lands on
   the key <<b, connection id of p's client, ssid>>: p's entries stay live in the replica, and a connection of b that
   happens to carry the same id has ITS subscription removed cluster-wide *)
RECURSIVE Tombstone(_, _, _)
Tombstone(state, ks, t) ==
    IF ks = {} THEN state
    ELSE LET k == CHOOSE x \in ks : TRUE IN Tombstone([state EXCEPT ![k].d = t], ks \ {k}, t + 1)
PeerGC(b, p) ==
    /\ b # p /\ ~up[b][p] /\ p \in members[b]
    /\ members' = [members EXCEPT ![b] = @ \ {p}]
    /\ routes' = [routes EXCEPT ![b] = { r \in @ : r[1] # p }]
    /\ LET act == { k \in Keys : k[1] = p /\ IsAdded(st[b][k]) } IN
       IF GcAsCode
       THEN st' = [st EXCEPT ![b] = Tombstone(@, { <<b, k[2], k[3]>> : k \in act }, now)] /\ now' = now + Cardinality(act)
       ELSE UNCHANGED <<st, now>>
    /\ UNCHANGED <<loc, bc, gs, up, live, wire, fresh, merged>>

(* broker b is replaced by a new process under the same name: its clients, replica (the subscription part is kept in
   memory only), member list and routes are gone and all its connections break.  The other brokers keep what they had. *)
Restart(b) ==
    /\ loc' = [loc EXCEPT ![b] = {}]
    /\ st' = [st EXCEPT ![b] = Nothing]
    /\ routes' = [routes EXCEPT ![b] = {}]
    /\ members' = [members EXCEPT ![b] = {}]
    /\ fresh' = fresh \cup {b}
    /\ up'   = [x \in Brokers |-> [y \in Brokers |-> IF b \in {x, y} THEN FALSE ELSE up[x][y]]]
    /\ bc'   = [x \in Brokers |-> [y \in Brokers |-> IF b \in {x, y} THEN Nothing ELSE bc[x][y]]]
    /\ gs'   = [x \in Brokers |-> [y \in Brokers |-> IF b \in {x, y} THEN Nothing ELSE gs[x][y]]]
    /\ live' = [x \in Brokers |-> [y \in Brokers |-> IF b \in {x, y} THEN "none" ELSE live[x][y]]]
    /\ wire' = [x \in Brokers |-> [y \in Brokers |-> IF b \in {x, y} THEN <<>> ELSE wire[x][y]]]
    /\ UNCHANGED <<now, merged>>

GNext == \/ \E b, n \in Brokers : LinkDown(b, n) \/ LinkUp(b, n) \/ PeerGC(b, n)
         \/ \E b \in Brokers : Restart(b)
         \/ \E b \in Brokers, s \in Ssids : ClientSub(b, s) \/ ClientUnsub(b, s)
         \/ \E b \in Brokers : Periodic(b)
         \/ \E b, n \in Brokers : Pick(b, n) \/ Deliver(b, n)

(* C05: once nothing is queued or in flight, every broker forwards a channel to exactly the brokers that have a live
   local subscriber for it *)
Quiescent == \A b, n \in Brokers : (b # n => up[b][n]) /\ bc[b][n] = Nothing /\ live[b][n] = "none" /\ wire[b][n] = <<>>
RoutingAtQuiescence ==
    Quiescent => \A b \in Brokers : routes[b] = { <<p, s>> \in Brokers \X Ssids : p # b /\ s \in loc[p] }
(* a message published on broker b for ssid s: delivered to b's own client if subscribed, forwarded to exactly the
   brokers in b's routing table for s, whose clients receive it if they are (still) subscribed *)
ForwardedTo(b, s) == { p \in Others(b) : <<p, s>> \in routes[b] }
ReceivedBy(b, s)  == { p \in Brokers : s \in loc[p] /\ (p = b \/ p \in ForwardedTo(b, s)) }
(* C05 in terms of messages: at quiescence a publish reaches every broker with a live subscriber, once, and no other *)
ForwardingAtQuiescence ==
    Quiescent => \A b \in Brokers, s \in Ssids : /\ ForwardedTo(b, s) = { p \in Others(b) : s \in loc[p] }
                                                 /\ ReceivedBy(b, s) = { p \in Brokers : s \in loc[p] }

(* C13: a payload put on the wire carries every update queued on that link since the last pick: with union
   coalescing the states converge at quiescence *)
ConvergedAtQuiescence == Quiescent => \A b, n \in Brokers : \A k \in Keys : IsAdded(st[b][k]) = IsAdded(st[n][k])
=============================================================================
