------------------------------ MODULE TraceLib ------------------------------
(* Shared plumbing of all trace specifications: the log, the cursor, the high-water mark. *)
EXTENDS Naturals, Sequences, TLC, Json

Log == ndJsonDeserialize("trace.ndjson")

ToSet(seq) == { seq[i] : i \in DOMAIN seq }
Has(rec, fld) == fld \in DOMAIN rec

(* CONSTRAINT: remembers the furthest cursor position any behaviour reached (needs -workers 1) *)
Mark(l) == TLCSet(1, IF TLCGet(1) > l THEN TLCGet(1) ELSE l)
MarkInit == TLCSet(1, 0)

(* POSTCONDITION: every line consumed.  The HWM line tells the harness where validation stopped:
   Log[hwm] is the first event no spec action explains. *)
AllConsumed == /\ PrintT(<<"HWM", ToJson([hwm |-> TLCGet(1), len |-> Len(Log)])>>)
               /\ TLCGet(1) = Len(Log) + 1
=============================================================================
