----------------------------- MODULE MC_Tamper -----------------------------
(* C12 grid: issued key shapes x field-level tamper operations; for each, the grants gained under each cipher kind. *)
EXTENDS AuthZ, Json, TLC
CONSTANT Tier

Masks   == { {"r"}, {"w"}, {"r", "w"}, {"r", "l"}, {"r", "w", "s", "l", "p"}, {"e", "r"}, {} }
Targets == { Chan(<<"a">>, FALSE), Chan(<<"a">>, TRUE), Chan(<<"a", "b">>, FALSE), Chan(<<"a", PLUS>>, TRUE), Chan(<<>>, TRUE), Chan(<<PLUS, "b">>, FALSE) }
Expiries == {"none", "past", "future"}
Issued  == { [perms |-> m, target |-> t, expiry |-> e] : m \in Masks, t \in Targets, e \in Expiries }

Ops == { [f |-> "perm", arg |-> p] : p \in {"r", "w", "s", "l", "p", "e"} }
       \cup { [f |-> "exact", arg |-> 0] }
       \cup { [f |-> "lit", arg |-> i] : i \in 1..3 }
       \cup { [f |-> "target", arg |-> w] : w \in { <<"b">>, <<"a">>, <<"a", "b">>, <<"b", "b">>, <<>> } }
       \cup { [f |-> "expiry", arg |-> e] : e \in {"none", "future"} }
       \cup { [f |-> "id", arg |-> x] : x \in {"salt", "master", "contract", "sig"} }
       \cup { [f |-> "swap", arg |-> x] : x \in {12, 13, 23} }

ProbeReqs == { Chan(<<"a">>, FALSE), Chan(<<"b">>, FALSE), Chan(<<"a", "b">>, FALSE), Chan(<<"b", "b">>, FALSE), Chan(<<"a", "b", "b">>, FALSE), Chan(<<"a">>, TRUE) }
Probes    == { [req |-> r, op |-> o] : r \in ProbeReqs, o \in {"subscribe", "publish", "history", "presence", "extend"} }

(* design-level result: an authenticated cipher and the block cipher are safe, the stream ciphers are not *)
ASSUME \A k \in Issued, op \in Ops : TamperSafe("auth", RawOf(k.perms, k.target, k.expiry), op, Probes)
ASSUME \A k \in Issued, op \in Ops : TamperSafe("block8", RawOf(k.perms, k.target, k.expiry), op, Probes)
ASSUME \E k \in Issued, op \in Ops : ~TamperSafe("stream", RawOf(k.perms, k.target, k.expiry), op, Probes)

ASSUME \A k \in Issued, op \in Ops :
    LET raw == RawOf(k.perms, k.target, k.expiry) IN
    PrintT(<<"TAMPER", ToJson([key |-> k, op |-> op, base |-> GrantsRaw(raw, Probes),
                               gainStream |-> GrantsRaw(Tamper("stream", raw, op), Probes) \ GrantsRaw(raw, Probes)])>>)
ASSUME PrintT(<<"PROBES", ToJson(Probes)>>)
ASSUME PrintT(<<"COUNT", ToJson([n |-> Cardinality(Issued) * Cardinality(Ops)])>>)

VARIABLE x
Init == x = 0
Next == UNCHANGED x
=============================================================================
