CONSTANT Mode = "emitter"
INIT TraceInit
NEXT TraceNext
CONSTRAINT MarkC
POSTCONDITION AllConsumed
CHECK_DEADLOCK FALSE
