------------------------------- MODULE Match -------------------------------
(***************************************************************************)
(* The matching relation of the properties (C01, C02, C05, C18), written   *)
(* from their statements and shared by every module.  A filter / channel / *)
(* ssid is a sequence of words whose first element is the contract.        *)
(***************************************************************************)
EXTENDS Naturals, Sequences, FiniteSets

CONSTANT Mode          \* "emitter" or "mqtt"

PLUS  == "+"
HASH  == "#"
SHARE == "$share"

LevelsMatch(f, ch, n) == \A i \in 1..n : f[i] = ch[i] \/ (i > 1 /\ f[i] = PLUS)

Matches(f, ch) ==
    IF Mode = "emitter"
    THEN Len(f) <= Len(ch) /\ LevelsMatch(f, ch, Len(f))
    ELSE \/ Len(f) = Len(ch) /\ LevelsMatch(f, ch, Len(f))
         \/ /\ Len(f) >= 2 /\ f[Len(f)] = HASH
            /\ Len(ch) >= Len(f)
            /\ LevelsMatch(f, ch, Len(f) - 1)

IsShare(f)  == Len(f) >= 3 /\ f[2] = SHARE
GroupOf(f)  == <<f[1], f[3]>>
Eff(f)      == <<f[1]>> \o SubSeq(f, 4, Len(f))

Direct(ss, ch, excl) == { p[2] : p \in { q \in ss : ~IsShare(q[1]) /\ Matches(q[1], ch) } } \ excl
Members(ss, ch, g, excl) ==
    { p[2] : p \in { q \in ss : IsShare(q[1]) /\ GroupOf(q[1]) = g /\ Matches(Eff(q[1]), ch) } } \ excl

SpecResults(ss, ch, excl) ==
    LET groups == { GroupOf(q[1]) : q \in { r \in ss : IsShare(r[1]) } }
        live   == { g \in groups : Members(ss, ch, g, excl) # {} }
        picks  == { pk \in [ live -> UNION { Members(ss, ch, g, excl) : g \in live } ] :
                        \A g \in live : pk[g] \in Members(ss, ch, g, excl) }
    IN  { Direct(ss, ch, excl) \cup { pk[g] : g \in live } : pk \in picks }

=============================================================================
