------------------------------- MODULE Trie_Lin -------------------------------
(* Linearizability of concurrent callers of message.Trie (the concurrency clause of C01).
   The log lists call starts and returns in real-time order:
     {"e":"reset"}
     {"e":"call","id":n,"op":"sub"|"unsub"|"look","f":[..],"s":"..","ch":[..]}
     {"e":"ret","id":n,"res":[subscriber ids]}            (res only for lookups)
   Between two log lines any pending call may take effect (Lin).  The log is accepted iff there is a placement of one
   linearization point per call, inside its call/return interval, such that every lookup returned exactly the
   subscribers matching at its point.  No share-group filters here (their pick is random; C01's sequential part has them). *)
EXTENDS Match, TraceLib

VARIABLES S,        \* set of <<filter, subscriber>>
          pending,  \* calls started, not yet linearized: id -> call record
          done,     \* lookups linearized, not yet returned: id -> result set
          l
vars == <<S, pending, done, l>>
Ev == Log[l]

Init == S = {} /\ pending = <<>> /\ done = <<>> /\ l = 1 /\ MarkInit

Dom(f) == DOMAIN f
Without(f, k) == [x \in Dom(f) \ {k} |-> f[x]]
With(f, k, v) == [x \in Dom(f) \cup {k} |-> IF x = k THEN v ELSE f[x]]

TrReset == l <= Len(Log) /\ Ev.e = "reset" /\ S' = {} /\ pending' = <<>> /\ done' = <<>> /\ l' = l + 1
TrCall  == l <= Len(Log) /\ Ev.e = "call" /\ pending' = With(pending, Ev.id, Ev) /\ l' = l + 1 /\ UNCHANGED <<S, done>>
(* the call takes effect *)
Lin(id) == /\ id \in Dom(pending)
           /\ LET c == pending[id] IN
              /\ S' = CASE c.op = "sub" -> S \cup { <<c.f, c.s>> } [] c.op = "unsub" -> S \ { <<c.f, c.s>> } [] OTHER -> S
              /\ done' = IF c.op = "look" THEN With(done, id, Direct(S, c.ch, {})) ELSE With(done, id, {})
           /\ pending' = Without(pending, id) /\ l' = l
(* the call returns: it must have taken effect, and a lookup must have returned what matched at that point *)
TrRet   == /\ l <= Len(Log) /\ Ev.e = "ret" /\ Ev.id \in Dom(done)
           /\ (("res" \in DOMAIN Ev) => ToSet(Ev.res) = done[Ev.id])
           /\ done' = Without(done, Ev.id) /\ l' = l + 1 /\ UNCHANGED <<S, pending>>

Next == TrReset \/ TrCall \/ TrRet \/ \E id \in Dom(pending) : Lin(id)
MarkC == Mark(l)
=============================================================================
